"""Equivalence modulo refactoring ("healing").

The rules in sa/rules were confirmed, function by function, on the reviewed tree whose sources are kept in
spec/reference_src.  Many of them recognise the *shape* of the code that implements a clause of a property; a
behaviour-preserving refactoring (helper extracted, guard clause instead of nested if, temporary introduced or removed,
conditional expression instead of if/else, comparison mirrored, local renamed ...) changes that shape without changing
what the function computes.  To keep the rules silent on such edits - without loosening any of them - every function of
the current tree that differs from its reviewed form is put through a normal form N (a fixed sequence of
semantics-preserving rewrites, the same for both sides); if N(current) == N(reviewed) the two are equivalent and the
rules analyse the reviewed form of that function.  If the normal forms differ, nothing is changed: the rules see the
current code exactly as written.  A function whose behaviour was changed never normalises to its reviewed form, so the
layer cannot hide a violation; it only removes alarms on code it can prove equivalent.

Nothing is executed: N is a tree-to-tree rewrite of `ast` nodes.

Assumptions of N (documented in DESIGN.md 10.6): ordering comparisons are total on the compared values (`not a < b`
is identified with `b <= a`: false for NaN operands); a helper that did not exist in the reviewed tree is not
overridden in a subclass; the text of exception/log messages and type annotations is not behaviour.
"""

from __future__ import annotations

import ast
import copy
import os
from typing import Dict, Iterable, List, Optional, Set, Tuple

FuncNode = (ast.FunctionDef, ast.AsyncFunctionDef)
TERMINATORS = (ast.Return, ast.Raise, ast.Continue, ast.Break)
LOG_BASES = {"log", "logger", "logging", "LOG"}
LOG_METHODS = {"debug", "info", "warning", "warn", "error", "exception", "critical", "log"}
SEQ_ARG_BUILTINS = {"bytes", "bytearray", "list", "tuple", "set", "frozenset", "sorted", "min", "max", "sum", "any", "all", "enumerate", "zip", "reversed", "iter"}
PURE_CALLS = {"len", "int", "float", "min", "max", "abs", "bool", "isinstance", "tuple", "str", "bytes", "ord", "chr", "range", "repr"}
PURE_DOTTED = {"os.path.join", "os.path.dirname", "os.path.basename", "os.path.splitext"}


def _dotted_name(e: ast.AST) -> Optional[str]:
    parts = []
    while isinstance(e, ast.Attribute):
        parts.append(e.attr)
        e = e.value
    if isinstance(e, ast.Name):
        parts.append(e.id)
        return ".".join(reversed(parts))
    return None


_TYPE_NAMES = {"int", "float", "str", "bytes", "bytearray", "bool", "list", "tuple", "dict", "set", "frozenset", "complex"}


class NotInlinable(Exception):
    pass


def dump(n) -> str:
    if isinstance(n, list):
        return "[" + ",".join(dump(x) for x in n) + "]"
    return ast.dump(n, annotate_fields=False, include_attributes=False)


# --------------------------------------------------------------------------------------------- module tables
def function_table(tree: ast.Module) -> Dict[str, Tuple[ast.AST, list, Optional[str]]]:
    """'f' / 'Cls.m' / 'Outer.Inner.m' -> (def node, the body list holding it, class key or None)."""
    out: Dict[str, Tuple[ast.AST, list, Optional[str]]] = {}

    def walk(body: list, prefix: str, cls: Optional[str]) -> None:
        for st in body:
            if isinstance(st, FuncNode):
                key = prefix + st.name
                if key in out:
                    # property getter/setter pairs, overloads: keep them apart
                    k = 2
                    while f"{key}#{k}" in out:
                        k += 1
                    key = f"{key}#{k}"
                out[key] = (st, body, cls)
            elif isinstance(st, ast.ClassDef):
                walk(st.body, prefix + st.name + ".", prefix + st.name)
            elif isinstance(st, ast.If):
                walk(st.body, prefix, cls)
                walk(st.orelse, prefix, cls)
            elif isinstance(st, ast.Try):
                walk(st.body, prefix, cls)

    walk(tree.body, "", None)
    return out


def const_table(tree: ast.Module) -> Dict[str, ast.expr]:
    """module-level NAME = <literal> and class-level Cls.NAME = <literal> (literal: constants, tuples/frozensets of them)."""
    out: Dict[str, ast.expr] = {}

    def lit(e: ast.AST) -> bool:
        if isinstance(e, ast.Constant):
            return True
        if isinstance(e, (ast.Tuple, ast.List, ast.Set)):
            return all(lit(x) or (isinstance(x, ast.Name) and x.id in _TYPE_NAMES) for x in e.elts)
        if isinstance(e, ast.UnaryOp) and isinstance(e.op, ast.USub):
            return lit(e.operand)
        if isinstance(e, ast.Call) and isinstance(e.func, ast.Name) and e.func.id == "frozenset" and len(e.args) == 1 and not e.keywords:
            return lit(e.args[0])
        if isinstance(e, ast.Call) and isinstance(e.func, ast.Attribute) and isinstance(e.func.value, ast.Name) and e.func.value.id == "re" and e.func.attr == "compile" and e.args and all(lit(a_) for a_ in e.args) and not e.keywords:
            return True
        if isinstance(e, ast.Call) and isinstance(e.func, ast.Name) and e.func.id == "len" and len(e.args) == 1 and isinstance(e.args[0], ast.Constant) and isinstance(e.args[0].value, (str, bytes)):
            return True
        # the constants of the standard module `string` (string.ascii_lowercase, ...) and the length of one / of another constant
        if isinstance(e, ast.Attribute) and isinstance(e.value, ast.Name) and e.value.id == "string" and e.attr in ("ascii_lowercase", "ascii_uppercase", "ascii_letters", "digits", "hexdigits", "octdigits", "punctuation", "whitespace", "printable"):
            return True
        if isinstance(e, ast.Call) and isinstance(e.func, ast.Name) and e.func.id == "len" and len(e.args) == 1 and not e.keywords and (lit(e.args[0]) or (isinstance(e.args[0], ast.Name) and e.args[0].id.isupper())):
            return True
        if isinstance(e, ast.Dict):
            # a dispatch table: constant keys, values that are constants, names or tuples of those
            def val(v: ast.AST) -> bool:
                return lit(v) or isinstance(v, ast.Name) or (isinstance(v, ast.Tuple) and all(val(x) for x in v.elts))

            return all(k is not None and isinstance(k, ast.Constant) for k in e.keys) and all(val(v) for v in e.values)
        return False

    def walk(body: list, prefix: str) -> None:
        for st in body:
            tgt = val = None
            if isinstance(st, ast.Assign) and len(st.targets) == 1 and isinstance(st.targets[0], ast.Name):
                tgt, val = st.targets[0].id, st.value
            elif isinstance(st, ast.AnnAssign) and isinstance(st.target, ast.Name) and st.value is not None:
                tgt, val = st.target.id, st.value
            if tgt is not None and lit(val):
                out[prefix + tgt] = val
            if isinstance(st, ast.ClassDef):
                walk(st.body, prefix + st.name + ".")

    walk(tree.body, "")
    return out


CLASS_BASES: Dict[str, List[str]] = {}


def note_class_bases(tree: ast.Module) -> None:
    """class name -> names of its bases defined in the same module (a constant of a base class is read through self.NAME)."""
    for n in ast.walk(tree):
        if isinstance(n, ast.ClassDef):
            CLASS_BASES[n.name] = [b.id for b in n.bases if isinstance(b, ast.Name)]


def _mro(cls: Optional[str]) -> List[str]:
    out: List[str] = []
    todo = [cls] if cls else []
    while todo:
        c = todo.pop(0)
        if c in out:
            continue
        out.append(c)
        todo.extend(CLASS_BASES.get(c.split(".")[-1], []))
    return out


def interned_table(tree: ast.Module) -> Dict[str, ast.expr]:
    """module-level NAME = KWD(b'..') / LIT('..') and class-level Cls.NAME = ...: the two constructors intern, so the name and
    the call denote the same object wherever they are written (identity and equality alike)."""
    out: Dict[str, ast.expr] = {}

    def walk(body: list, prefix: str) -> None:
        for st in body:
            if isinstance(st, ast.Assign) and len(st.targets) == 1 and isinstance(st.targets[0], ast.Name):
                v = st.value
                if isinstance(v, ast.Call) and isinstance(v.func, ast.Name) and v.func.id in ("KWD", "LIT") and len(v.args) == 1 and not v.keywords and isinstance(v.args[0], ast.Constant):
                    out[prefix + st.targets[0].id] = v
            if isinstance(st, ast.ClassDef):
                walk(st.body, prefix + st.name + ".")

    walk(tree.body, "")
    return out


def _add_interned(cur_tree: ast.Module, ref_tree: ast.Module, cur_consts: Dict[str, ast.expr], ref_consts: Dict[str, ast.expr]) -> None:
    """Interned constants that both trees define with the same value are written out as the call on both sides."""
    ic, ir = interned_table(cur_tree), interned_table(ref_tree)
    for k, v in ic.items():
        if k in ir and dump(ir[k]) == dump(v):
            cur_consts.setdefault(k, v)
            ref_consts.setdefault(k, ir[k])


# --------------------------------------------------------------------------------------------- small helpers
def is_simple(e: ast.AST) -> bool:
    """Name / constant / attribute chain on a name: evaluating it twice or at another point of the same statement is harmless."""
    if isinstance(e, ast.Call) and isinstance(e.func, ast.Name) and e.func.id in ("KWD", "LIT") and len(e.args) == 1 and not e.keywords and isinstance(e.args[0], ast.Constant):
        return True
    if isinstance(e, (ast.Name, ast.Constant)):
        return True
    if isinstance(e, ast.Attribute):
        return is_simple(e.value)
    if isinstance(e, ast.UnaryOp) and isinstance(e.op, ast.USub):
        return is_simple(e.operand)
    return False


def call_free(e: ast.AST, fresh_matters: bool = False) -> bool:
    for n in ast.walk(e):
        if isinstance(n, (ast.Yield, ast.YieldFrom, ast.Await, ast.NamedExpr, ast.Lambda, ast.ListComp, ast.SetComp, ast.DictComp, ast.GeneratorExp)):
            return False
        if isinstance(n, (ast.List, ast.Dict, ast.Set)) and fresh_matters:
            return False
        if isinstance(n, ast.Call):
            # KWD(b'..') / LIT('..') of a constant: an interned object, the same wherever and whenever it is asked for
            interned = isinstance(n.func, ast.Name) and n.func.id in ("KWD", "LIT") and len(n.args) == 1 and not n.keywords and isinstance(n.args[0], ast.Constant)
            if not (interned or (isinstance(n.func, ast.Name) and n.func.id in PURE_CALLS) or _dotted_name(n.func) in PURE_DOTTED):
                return False
    return True


def names_in(e: ast.AST) -> Set[str]:
    return {n.id for n in ast.walk(e) if isinstance(n, ast.Name)}


def terminates(block: list) -> bool:
    if not block:
        return False
    last = block[-1]
    if isinstance(last, TERMINATORS):
        return True
    if isinstance(last, ast.If):
        return bool(last.orelse) and terminates(last.body) and terminates(last.orelse)
    if isinstance(last, ast.Try):
        if last.finalbody and terminates(last.finalbody):
            return True
        body_t = terminates(last.body) if not last.orelse else terminates(last.orelse)
        return body_t and all(terminates(h.body) for h in last.handlers)
    if isinstance(last, ast.With):
        return terminates(last.body)
    if isinstance(last, ast.While) and isinstance(last.test, ast.Constant) and last.test.value and not last.orelse:
        # `while True` without a break never falls through
        for n in _walk_loop_level(last.body):
            if isinstance(n, ast.Break):
                return False
        return True
    return False


def _walk_loop_level(body: list) -> Iterable[ast.AST]:
    """Statements of a loop body that belong to this loop (not to nested loops / defs)."""
    stack = list(body)
    while stack:
        n = stack.pop()
        yield n
        if isinstance(n, (ast.For, ast.While) + FuncNode + (ast.ClassDef,)):
            if isinstance(n, (ast.For, ast.While)):
                stack.extend(n.orelse)
            continue
        for f in ("body", "orelse", "finalbody"):
            stack.extend(getattr(n, f, []) or [])
        for h in getattr(n, "handlers", []) or []:
            stack.extend(h.body)


class _Subst(ast.NodeTransformer):
    def __init__(self, mapping: Dict[str, ast.expr]):
        self.mapping = mapping
        self.count = 0

    def visit_Name(self, n: ast.Name):
        if isinstance(n.ctx, ast.Load) and n.id in self.mapping:
            self.count += 1
            return copy.deepcopy(self.mapping[n.id])
        return n

    # nested scopes: parameters shadow
    def visit_Lambda(self, n: ast.Lambda):
        shadow = {a.arg for a in n.args.args}
        if shadow & set(self.mapping):
            sub = _Subst({k: v for k, v in self.mapping.items() if k not in shadow})
            n.body = sub.visit(n.body)
            self.count += sub.count
            return n
        return self.generic_visit(n)


def subst(node, mapping: Dict[str, ast.expr]):
    s = _Subst(mapping)
    if isinstance(node, list):
        return [s.visit(x) for x in node], s.count
    return s.visit(node), s.count


def count_name(node, name: str) -> Tuple[int, int]:
    """(loads, stores) of a local name under node (list of statements or node), nested scopes included."""
    loads = stores = 0
    nodes = node if isinstance(node, list) else [node]
    for root in nodes:
        for n in ast.walk(root):
            if isinstance(n, ast.Name) and n.id == name:
                if isinstance(n.ctx, ast.Load):
                    loads += 1
                else:
                    stores += 1
            elif isinstance(n, FuncNode) and n.name == name:
                stores += 1
            elif isinstance(n, ast.arg) and n.arg == name:
                stores += 1
            elif isinstance(n, (ast.Global, ast.Nonlocal)) and name in n.names:
                stores += 2
    return loads, stores


# --------------------------------------------------------------------------------------------- stripping
class _Strip(ast.NodeTransformer):
    def visit_FunctionDef(self, n: ast.FunctionDef):
        n.returns = None
        for a in n.args.posonlyargs + n.args.args + n.args.kwonlyargs:
            a.annotation = None
        if n.args.vararg:
            n.args.vararg.annotation = None
        if n.args.kwarg:
            n.args.kwarg.annotation = None
        if n.body and isinstance(n.body[0], ast.Expr) and isinstance(n.body[0].value, ast.Constant) and isinstance(n.body[0].value.value, str):
            n.body = n.body[1:] or [ast.Pass()]
        self.generic_visit(n)
        n.type_comment = None
        return n

    visit_AsyncFunctionDef = visit_FunctionDef

    def visit_AnnAssign(self, n: ast.AnnAssign):
        self.generic_visit(n)
        if n.value is None:
            return None
        return ast.copy_location(ast.Assign(targets=[n.target], value=n.value), n)

    def visit_Expr(self, n: ast.Expr):
        self.generic_visit(n)
        v = n.value
        if isinstance(v, ast.Constant):
            return None
        if isinstance(v, ast.Call) and isinstance(v.func, ast.Attribute) and v.func.attr in LOG_METHODS:
            b = v.func.value
            if isinstance(b, ast.Name) and b.id in LOG_BASES:
                return None
        return n

    def visit_Call(self, n: ast.Call):
        self.generic_visit(n)
        if isinstance(n.func, ast.Name) and n.func.id == "cast" and len(n.args) == 2 and not n.keywords:
            return n.args[1]
        return n

    def visit_Raise(self, n: ast.Raise):
        self.generic_visit(n)
        if isinstance(n.exc, ast.Call):
            n.exc.args = [_msg(a) for a in n.exc.args]
        return n


class _StripMsg(ast.NodeTransformer):
    def visit_Raise(self, n: ast.Raise):
        if isinstance(n.exc, ast.Call):
            n.exc.args = [_msg(a) for a in n.exc.args]
        return n


def _msg(a: ast.expr) -> ast.expr:
    """The text of an exception message is not behaviour the properties talk about."""
    if isinstance(a, ast.JoinedStr):
        return ast.Constant(value="<msg>")
    if isinstance(a, ast.Constant) and isinstance(a.value, str):
        return ast.Constant(value="<msg>")
    if isinstance(a, ast.BinOp) and isinstance(a.op, ast.Mod) and isinstance(a.left, ast.Constant) and isinstance(a.left.value, str):
        return ast.Constant(value="<msg>")
    if isinstance(a, ast.Call) and isinstance(a.func, ast.Attribute) and a.func.attr == "format" and isinstance(a.func.value, ast.Constant):
        return ast.Constant(value="<msg>")
    if isinstance(a, ast.Name) and a.id in ("error_msg", "msg", "message"):
        return a
    return a


def _fix_empty(body: list) -> list:
    return body


# --------------------------------------------------------------------------------------------- expressions
_NEG = {ast.Eq: ast.NotEq, ast.NotEq: ast.Eq, ast.Is: ast.IsNot, ast.IsNot: ast.Is, ast.In: ast.NotIn, ast.NotIn: ast.In}


def negate(e: ast.expr) -> ast.expr:
    """Logical negation in negation normal form (orderings are assumed total)."""
    if isinstance(e, ast.UnaryOp) and isinstance(e.op, ast.Not):
        return e.operand
    if isinstance(e, ast.BoolOp):
        op = ast.Or() if isinstance(e.op, ast.And) else ast.And()
        return ast.BoolOp(op=op, values=[negate(v) for v in e.values])
    if isinstance(e, ast.Compare) and len(e.ops) == 1:
        t = type(e.ops[0])
        if t in _NEG:
            return ast.Compare(left=e.left, ops=[_NEG[t]()], comparators=e.comparators)
        if t is ast.Lt:  # not a < b  ==  b <= a
            return ast.Compare(left=e.comparators[0], ops=[ast.LtE()], comparators=[e.left])
        if t is ast.LtE:
            return ast.Compare(left=e.comparators[0], ops=[ast.Lt()], comparators=[e.left])
    if isinstance(e, ast.Constant) and isinstance(e.value, bool):
        return ast.Constant(value=not e.value)
    return ast.UnaryOp(op=ast.Not(), operand=e)


class _Expr(ast.NodeTransformer):
    """Bottom-up canonical form of expressions."""

    def visit_UnaryOp(self, n: ast.UnaryOp):
        self.generic_visit(n)
        if isinstance(n.op, ast.Not):
            r = negate(n.operand)
            return r
        return n

    def visit_Compare(self, n: ast.Compare):
        self.generic_visit(n)
        if len(n.ops) > 1:
            mids = n.comparators[:-1]
            if all(is_simple(m) or call_free(m) for m in mids):
                parts = []
                left = n.left
                for op, right in zip(n.ops, n.comparators):
                    parts.append(self._single(ast.Compare(left=left, ops=[op], comparators=[right])))
                    left = right
                return ast.BoolOp(op=ast.And(), values=parts)
            return n
        return self._single(n)

    def _single(self, n: ast.Compare) -> ast.expr:
        op = n.ops[0]
        left, right = n.left, n.comparators[0]
        if isinstance(op, ast.Gt):
            left, right, op = right, left, ast.Lt()
        elif isinstance(op, ast.GtE):
            left, right, op = right, left, ast.LtE()
        if isinstance(op, (ast.Lt, ast.LtE, ast.Eq, ast.NotEq)):
            # a - b REL 0  ->  a REL b ;  0 REL a - b  ->  b REL a
            if isinstance(right, ast.Constant) and right.value == 0 and type(right.value) is int and isinstance(left, ast.BinOp) and isinstance(left.op, ast.Sub):
                left, right = left.left, left.right
            elif isinstance(left, ast.Constant) and left.value == 0 and type(left.value) is int and isinstance(right, ast.BinOp) and isinstance(right.op, ast.Sub):
                left, right = right.right, right.left
        if isinstance(op, (ast.Eq, ast.NotEq)) and dump(left) > dump(right):
            left, right = right, left
        if isinstance(op, (ast.In, ast.NotIn)) and isinstance(right, ast.Call) and isinstance(right.func, ast.Name) and right.func.id in ("frozenset", "set", "tuple", "list") and len(right.args) == 1 and not right.keywords and isinstance(right.args[0], (ast.List, ast.Set, ast.Tuple)):
            right = right.args[0]
        if isinstance(op, (ast.In, ast.NotIn)) and isinstance(right, (ast.List, ast.Set, ast.Tuple)) and all(isinstance(x, ast.Constant) for x in right.elts):
            # membership in a literal collection of constants does not depend on the order they are written in
            right = ast.Tuple(elts=sorted(right.elts, key=lambda x: repr(x.value)), ctx=ast.Load())
        if isinstance(op, (ast.In, ast.NotIn)) and isinstance(right, ast.Tuple) and 1 <= len(right.elts) <= 6 and all(isinstance(x, ast.Constant) and isinstance(x.value, (str, int)) and not isinstance(x.value, bool) for x in right.elts) and is_simple(left):
            # membership in a literal tuple of strings / integers is a chain of equality tests
            parts = [self._single(ast.Compare(left=copy.deepcopy(left), ops=[ast.Eq()], comparators=[x])) for x in right.elts]
            e = parts[0] if len(parts) == 1 else ast.BoolOp(op=ast.Or(), values=parts)
            return e if isinstance(op, ast.In) else negate(e)
        return ast.Compare(left=left, ops=[op], comparators=[right])

    def visit_BinOp(self, n: ast.BinOp):
        self.generic_visit(n)
        if isinstance(n.op, ast.Add) and isinstance(n.right, ast.Constant) and n.right.value in (b"", "") and not isinstance(n.right.value, bool):
            return n.left
        if isinstance(n.op, ast.Add) and isinstance(n.left, ast.Constant) and n.left.value in (b"", "") and not isinstance(n.left.value, bool):
            return n.right
        if isinstance(n.op, ast.Mod) and isinstance(n.left, ast.Constant) and isinstance(n.left.value, str):
            j = _percent_to_fstring(n.left.value, n.right)
            if j is not None:
                return j
        return n

    def visit_JoinedStr(self, n: ast.JoinedStr):
        self.generic_visit(n)
        # adjacent constant pieces merged, empty ones dropped
        vals: list = []
        for v in n.values:
            if isinstance(v, ast.FormattedValue) and isinstance(v.value, ast.Constant) and isinstance(v.value.value, str) and v.conversion == -1 and v.format_spec is None:
                v = v.value
            if isinstance(v, ast.Constant) and isinstance(v.value, str):
                if not v.value:
                    continue
                if vals and isinstance(vals[-1], ast.Constant):
                    vals[-1] = ast.Constant(value=vals[-1].value + v.value)
                    continue
            vals.append(v)
        n.values = vals
        return n

    def visit_Subscript(self, n: ast.Subscript):
        self.generic_visit(n)
        sl = n.slice
        if (
            isinstance(sl, ast.BinOp)
            and isinstance(sl.op, ast.Sub)
            and isinstance(sl.right, ast.Constant)
            and type(sl.right.value) is int
            and sl.right.value > 0
            and isinstance(sl.left, ast.Call)
            and isinstance(sl.left.func, ast.Name)
            and sl.left.func.id == "len"
            and len(sl.left.args) == 1
            and is_simple(n.value)
            and dump(sl.left.args[0]) == dump(n.value)
        ):
            n.slice = ast.UnaryOp(op=ast.USub(), operand=ast.Constant(value=sl.right.value))
        return n

    def visit_BoolOp(self, n: ast.BoolOp):
        self.generic_visit(n)
        vals = []
        for v in n.values:
            if isinstance(v, ast.BoolOp) and type(v.op) is type(n.op):
                vals.extend(v.values)
            else:
                vals.append(v)
        # isinstance(x, A) or isinstance(x, B) -> isinstance(x, (A, B));  not isinstance(x, A) and not isinstance(x, B) likewise
        def inst(e: ast.AST, neg: bool):
            if neg:
                if not (isinstance(e, ast.UnaryOp) and isinstance(e.op, ast.Not)):
                    return None
                e = e.operand
            if isinstance(e, ast.Call) and isinstance(e.func, ast.Name) and e.func.id == "isinstance" and len(e.args) == 2 and not e.keywords and is_simple(e.args[0]):
                return e
            return None

        neg = isinstance(n.op, ast.And)
        merged: list = []
        for v in vals:
            c = inst(v, neg)
            p_ = inst(merged[-1], neg) if merged else None
            if c is not None and p_ is not None and dump(c.args[0]) == dump(p_.args[0]):
                def types(e: ast.AST) -> list:
                    return list(e.elts) if isinstance(e, ast.Tuple) else [e]

                call = ast.Call(func=ast.Name(id="isinstance", ctx=ast.Load()), args=[c.args[0], ast.Tuple(elts=types(p_.args[1]) + types(c.args[1]), ctx=ast.Load())], keywords=[])
                merged[-1] = ast.UnaryOp(op=ast.Not(), operand=call) if neg else call
            else:
                merged.append(v)
        if len(merged) == 1:
            return merged[0]
        n.values = merged
        return n

    def visit_IfExp(self, n: ast.IfExp, visited: bool = False):
        if not visited:
            self.generic_visit(n)
        t, swap = canon_test(n.test)
        if swap:
            n.body, n.orelse = n.orelse, n.body
        n.test = t
        # True if <boolean> else False  ->  <boolean>
        if isinstance(n.body, ast.Constant) and isinstance(n.orelse, ast.Constant) and isinstance(n.body.value, bool) and isinstance(n.orelse.value, bool) and _is_boolean(n.test):
            if n.body.value and not n.orelse.value:
                return n.test
            if not n.body.value and n.orelse.value:
                return negate(n.test)
        # c and X  /  True if c else X   for booleans
        if isinstance(n.body, ast.Constant) and n.body.value is True and _is_boolean(n.test) and _is_boolean(n.orelse):
            return ast.BoolOp(op=ast.Or(), values=[n.test, n.orelse])
        if isinstance(n.orelse, ast.Constant) and n.orelse.value is False and _is_boolean(n.test) and _is_boolean(n.body):
            return ast.BoolOp(op=ast.And(), values=[n.test, n.body])
        return n

    def visit_Call(self, n: ast.Call):
        self.generic_visit(n)
        f = n.func
        # (f if c else g)(args)  ->  f(args) if c else g(args)    (c, then the callee, then the arguments: same order)
        if isinstance(f, ast.IfExp):
            return self.visit_IfExp(
                ast.IfExp(
                    test=f.test,
                    body=ast.Call(func=f.body, args=n.args, keywords=n.keywords),
                    orelse=ast.Call(func=f.orelse, args=copy.deepcopy(n.args), keywords=copy.deepcopy(n.keywords)),
                ),
                visited=True,
            )
        # min / max of plain names and numbers: the order of the arguments does not matter
        if isinstance(f, ast.Name) and f.id in ("min", "max") and not n.keywords and len(n.args) == 1 and isinstance(n.args[0], ast.List) and all(isinstance(a, ast.Name) or (isinstance(a, ast.Constant) and type(a.value) in (int, float)) for a in n.args[0].elts):
            n.args[0].elts = sorted(n.args[0].elts, key=dump)
        if isinstance(f, ast.Name) and f.id in SEQ_ARG_BUILTINS and n.args and isinstance(n.args[0], ast.Tuple) and len(n.args) == 1:
            n.args[0] = ast.List(elts=n.args[0].elts, ctx=ast.Load())
        if isinstance(f, ast.Name) and f.id == "len" and len(n.args) == 1 and not n.keywords and isinstance(n.args[0], ast.Constant) and isinstance(n.args[0].value, (str, bytes)):
            return ast.Constant(value=len(n.args[0].value))
        # re.compile(P).meth(args)  ->  re.meth(P, args)
        if (
            isinstance(f, ast.Attribute)
            and f.attr in ("search", "match", "fullmatch", "finditer", "findall", "sub", "subn", "split")
            and isinstance(f.value, ast.Call)
            and isinstance(f.value.func, ast.Attribute)
            and isinstance(f.value.func.value, ast.Name)
            and f.value.func.value.id == "re"
            and f.value.func.attr == "compile"
            and len(f.value.args) == 1
            and not f.value.keywords
            and not n.keywords
            and len(n.args) <= (2 if f.attr in ("sub", "subn") else 1)
        ):
            return ast.Call(func=ast.Attribute(value=ast.Name(id="re", ctx=ast.Load()), attr=f.attr, ctx=ast.Load()), args=[f.value.args[0]] + list(n.args), keywords=[])
        if isinstance(f, ast.Attribute) and f.attr in ("start", "end", "group", "span") and len(n.args) == 1 and not n.keywords and isinstance(n.args[0], ast.Constant) and type(n.args[0].value) is int and n.args[0].value == 0:
            n.args = []
        if isinstance(f, ast.Name) and f.id in ("list", "tuple", "set", "sorted", "frozenset") and len(n.args) == 1 and not n.keywords and isinstance(n.args[0], (ast.GeneratorExp, ast.ListComp)):
            g = n.args[0]
            if len(g.generators) == 1 and not g.generators[0].ifs and not g.generators[0].is_async and isinstance(g.elt, ast.Name) and isinstance(g.generators[0].target, ast.Name) and g.elt.id == g.generators[0].target.id:
                n.args = [g.generators[0].iter]
        if isinstance(f, ast.Name) and f.id in ("min", "max") and len(n.args) > 1 and not n.keywords and not any(isinstance(a, ast.Starred) for a in n.args):
            n.args = [ast.List(elts=list(n.args), ctx=ast.Load())]
        if isinstance(f, ast.Name) and f.id == "list" and len(n.args) == 1 and not n.keywords and isinstance(n.args[0], (ast.Tuple, ast.List)) and not any(isinstance(e, ast.Starred) for e in n.args[0].elts):
            return ast.List(elts=list(n.args[0].elts), ctx=ast.Load())
        if isinstance(f, ast.Name) and f.id in ("dict", "list") and not n.args and not n.keywords:
            return ast.Dict(keys=[], values=[]) if f.id == "dict" else ast.List(elts=[], ctx=ast.Load())
        if isinstance(f, ast.Attribute) and f.attr == "get" and len(n.args) == 2 and isinstance(n.args[1], ast.Constant) and n.args[1].value is None:
            n.args = n.args[:1]
        if isinstance(f, ast.Attribute) and f.attr == "join" and len(n.args) == 1 and isinstance(n.args[0], ast.Tuple):
            n.args[0] = ast.List(elts=n.args[0].elts, ctx=ast.Load())
        return n


def _is_boolean(e: ast.expr) -> bool:
    if isinstance(e, ast.Compare):
        return True
    if isinstance(e, ast.UnaryOp) and isinstance(e.op, ast.Not):
        return True
    if isinstance(e, ast.BoolOp):
        return all(_is_boolean(v) for v in e.values)
    if isinstance(e, ast.Constant) and isinstance(e.value, bool):
        return True
    if isinstance(e, ast.Call) and isinstance(e.func, ast.Name) and e.func.id in ("isinstance", "issubclass", "hasattr", "callable", "bool", "any", "all"):
        return True
    return False


def _percent_to_fstring(fmt: str, arg: ast.expr) -> Optional[ast.expr]:
    """'a%sb' % x  ->  f'a{x}b'   (only plain %s conversions; x not a tuple display unless the arity matches)"""
    import re

    specs = re.findall(r"%(.)", fmt)
    if not specs or any(c != "s" for c in specs):
        return None
    args = list(arg.elts) if isinstance(arg, ast.Tuple) else [arg]
    if len(args) != len(specs):
        return None
    if not isinstance(arg, ast.Tuple) and not isinstance(arg, (ast.Name, ast.Attribute, ast.Call, ast.Subscript, ast.Constant)):
        return None
    parts = fmt.split("%s")
    vals: list = []
    for i, ptxt in enumerate(parts):
        if ptxt:
            vals.append(ast.Constant(value=ptxt))
        if i < len(args):
            vals.append(ast.FormattedValue(value=args[i], conversion=-1, format_spec=None))
    return ast.JoinedStr(values=vals)


def _truth(t: ast.expr) -> ast.expr:
    """Rewrites that are valid where only the truth value of t matters: len(x) != 0 -> x, len(x) == 0 -> not x, bool(x) -> x,
    applied through and/or/not."""
    if isinstance(t, ast.BoolOp):
        return ast.BoolOp(op=t.op, values=[_truth(v) for v in t.values])
    if isinstance(t, ast.UnaryOp) and isinstance(t.op, ast.Not):
        return ast.UnaryOp(op=ast.Not(), operand=_truth(t.operand))
    if isinstance(t, ast.Call) and isinstance(t.func, ast.Name) and t.func.id == "bool" and len(t.args) == 1 and not t.keywords:
        return _truth(t.args[0])
    if isinstance(t, ast.Compare) and len(t.ops) == 1:
        l_, r_, op = t.left, t.comparators[0], t.ops[0]

        def is_len(e: ast.AST) -> bool:
            return isinstance(e, ast.Call) and isinstance(e.func, ast.Name) and e.func.id == "len" and len(e.args) == 1 and not e.keywords

        def is_zero(e: ast.AST) -> bool:
            return isinstance(e, ast.Constant) and type(e.value) is int and e.value == 0

        lenside = l_ if is_len(l_) and is_zero(r_) else r_ if is_len(r_) and is_zero(l_) else None
        if lenside is not None:
            x = lenside.args[0]
            if isinstance(op, ast.NotEq):
                return x
            if isinstance(op, ast.Eq):
                return ast.UnaryOp(op=ast.Not(), operand=x)
            if isinstance(op, ast.Lt) and lenside is r_:  # 0 < len(x)
                return x
            if isinstance(op, ast.Gt) and lenside is l_:  # len(x) > 0
                return x
    return t


def canon_test(t: ast.expr) -> Tuple[ast.expr, bool]:
    """(test', swapped): test' is the positive form of the condition, swapped says the branches change places."""
    t2 = _truth(t)
    if dump(t2) != dump(t):
        t = _Expr().visit(t2)
    if isinstance(t, ast.UnaryOp) and isinstance(t.op, ast.Not):
        inner, sw = canon_test(t.operand)
        return inner, not sw
    if isinstance(t, ast.Compare) and len(t.ops) == 1:
        k = type(t.ops[0])
        if k in (ast.NotEq, ast.IsNot, ast.NotIn, ast.LtE):
            return negate(t), True
    if isinstance(t, ast.BoolOp) and isinstance(t.op, ast.Or):
        return negate(t), True
    if isinstance(t, ast.Call) and isinstance(t.func, ast.Name) and t.func.id == "bool" and len(t.args) == 1 and not t.keywords:
        return canon_test(t.args[0])
    # len(x) compared with 0 as a test is the truth value of x (anything with a length is true iff the length is not 0)
    if isinstance(t, ast.Compare) and len(t.ops) == 1:
        l_, r_, op = t.left, t.comparators[0], t.ops[0]

        def is_len(e: ast.AST) -> bool:
            return isinstance(e, ast.Call) and isinstance(e.func, ast.Name) and e.func.id == "len" and len(e.args) == 1 and not e.keywords

        def is_zero(e: ast.AST) -> bool:
            return isinstance(e, ast.Constant) and type(e.value) is int and e.value == 0

        if is_len(r_) and is_zero(l_) and isinstance(op, ast.Lt):  # 0 < len(x)
            return canon_test(r_.args[0])
        if is_len(l_) and is_zero(r_) and isinstance(op, ast.Eq) or (is_len(r_) and is_zero(l_) and isinstance(op, ast.Eq)):
            inner, sw = canon_test((l_ if is_len(l_) else r_).args[0])
            return inner, not sw
    return t, False


# --------------------------------------------------------------------------------------------- statements
def _num(e: ast.AST) -> Optional[float]:
    if isinstance(e, ast.Constant) and type(e.value) in (int, float):
        return e.value
    if isinstance(e, ast.UnaryOp) and isinstance(e.op, ast.USub) and isinstance(e.operand, ast.Constant) and type(e.operand.value) in (int, float):
        return -e.operand.value
    return None


def _range_of(t: ast.expr) -> Optional[Tuple[str, float, bool, float, bool]]:
    """A test that is a conjunction of comparisons of ONE plain name with numeric constants, as (name, lo, lo_open, hi, hi_open)."""
    parts = t.values if isinstance(t, ast.BoolOp) and isinstance(t.op, ast.And) else [t]
    name: Optional[str] = None
    lo, lo_open, hi, hi_open = float("-inf"), True, float("inf"), True
    for c in parts:
        if not (isinstance(c, ast.Compare) and len(c.ops) == 1):
            return None
        op, l, r = c.ops[0], c.left, c.comparators[0]
        if isinstance(op, ast.Gt):
            op, l, r = ast.Lt(), r, l
        elif isinstance(op, ast.GtE):
            op, l, r = ast.LtE(), r, l
        if isinstance(l, ast.Name) and _num(r) is not None:
            nm, k, side = l.id, _num(r), "hi"
        elif isinstance(r, ast.Name) and _num(l) is not None:
            nm, k, side = r.id, _num(l), "lo"
        else:
            return None
        if name is not None and nm != name:
            return None
        name = nm
        if isinstance(op, ast.Eq):
            nlo, nlo_open, nhi, nhi_open = k, False, k, False
        elif isinstance(op, (ast.Lt, ast.LtE)):
            strict = isinstance(op, ast.Lt)
            if side == "hi":
                nlo, nlo_open, nhi, nhi_open = float("-inf"), True, k, strict
            else:
                nlo, nlo_open, nhi, nhi_open = k, strict, float("inf"), True
        else:
            return None
        if nlo > lo or (nlo == lo and nlo_open):
            lo, lo_open = nlo, nlo_open
        if nhi < hi or (nhi == hi and nhi_open):
            hi, hi_open = nhi, nhi_open
    if name is None:
        return None
    return (name, lo, lo_open, hi, hi_open)


def _ranges_apart(a, b) -> bool:
    _, alo, alo_o, ahi, ahi_o = a
    _, blo, blo_o, bhi, bhi_o = b
    if ahi < blo or (ahi == blo and (ahi_o or blo_o)):
        return True
    if bhi < alo or (bhi == alo and (bhi_o or alo_o)):
        return True
    return False


def _rebinds(block: list, name: str) -> bool:
    for st in block:
        for n in ast.walk(st):
            if isinstance(n, ast.Name) and n.id == name and isinstance(n.ctx, (ast.Store, ast.Del)):
                return True
            if isinstance(n, (ast.Global, ast.Nonlocal)) and name in n.names:
                return True
            if isinstance(n, ast.ExceptHandler) and n.name == name:
                return True
    return False


def _merge_calls(st: ast.If, a: ast.stmt, b: ast.stmt) -> Optional[ast.stmt]:
    """if c: f(X, A) else: f(X, B)  ->  f(X, A if c else B)   (f and the common arguments are plain names/attributes)"""
    if not (isinstance(a, ast.Expr) and isinstance(b, ast.Expr) and isinstance(a.value, ast.Call) and isinstance(b.value, ast.Call)):
        return None
    ca, cb = a.value, b.value
    if dump(ca.func) != dump(cb.func) or not is_simple(ca.func) or ca.keywords or cb.keywords or len(ca.args) != len(cb.args) or not call_free(st.test):
        return None
    diff = [k for k, (x, y) in enumerate(zip(ca.args, cb.args)) if dump(x) != dump(y)]
    if len(diff) != 1 or not all(is_simple(x) for k, x in enumerate(ca.args) if k != diff[0]):
        return None
    k = diff[0]
    args = list(ca.args)
    args[k] = ast.IfExp(test=st.test, body=ca.args[k], orelse=cb.args[k])
    return ast.Expr(value=ast.Call(func=ca.func, args=args, keywords=[]))


class Normaliser:
    def __init__(self, bound_names: Optional[Set[str]] = None, list_locals: Optional[Set[str]] = None) -> None:
        self.fresh = 0
        # names that are certainly bound wherever they are mentioned (parameters) / locals only ever bound to lists
        self.bound_names = bound_names
        self.list_locals = list_locals or set()

    # ---- blocks
    def block(self, stmts: list, loop: bool = False) -> list:
        out: list = []
        for st in stmts:
            out.extend(self.stmt(st))
        changed = True
        guard = 0
        while changed and guard < 20:
            guard += 1
            changed = False
            out, c = self._drop_dead(out)
            changed |= c
            out, c = self._absorb_rest(out)
            changed |= c
            out, c = self._hoist_suffix(out)
            changed |= c
            out, c = self._sink_return(out)
            changed |= c
            out, c = self._merge_ifexp(out)
            changed |= c
            out, c = self._merge_handlers(out)
            changed |= c
            out, c = self._try_return(out)
            changed |= c
            out, c = self._default_override(out)
            changed |= c
            out, c = self._identity_loop(out)
            changed |= c
            out, c = self._store_to_load(out)
            changed |= c
            out, c = self._setdefault_idiom(out)
            changed |= c
            out, c = self._any_loop(out)
            changed |= c
            out, c = self._table_dispatch(out)
            changed |= c
            out, c = self._table_dispatch2(out)
            changed |= c
            out, c = self._merge_equal_arms(out)
            changed |= c
            out, c = self._close_to_with(out)
            changed |= c
            out, c = self._disjoint_ifs(out)
            changed |= c
            out, c = self._fold_restore(out)
            changed |= c
            out, c = self._mirrored_range_loops(out)
            changed |= c
        return out

    def _renorm_if(self, st: ast.If) -> list:
        st.body = self.block(st.body)
        st.orelse = self.block(st.orelse)
        return self._if_shape(st)

    def _if_shape(self, st: ast.If) -> list:
        body = [s for s in st.body if not isinstance(s, ast.Pass)]
        orelse = [s for s in st.orelse if not isinstance(s, ast.Pass)]
        test, swap = canon_test(st.test)
        if swap:
            body, orelse = orelse, body
        if isinstance(test, ast.Constant):
            return body if test.value else orelse
        if not body and not orelse:
            return [] if call_free(test) else [ast.Expr(value=test)]
        if not body and len(orelse) == 1 and isinstance(orelse[0], ast.If) and (not orelse[0].orelse or not orelse[0].body):
            inner = orelse[0]
            itest, ibody = (inner.test, inner.body) if not inner.orelse else (negate(inner.test), inner.orelse)
            nt = negate(test)
            vals = (nt.values if isinstance(nt, ast.BoolOp) and isinstance(nt.op, ast.And) else [nt]) + (itest.values if isinstance(itest, ast.BoolOp) and isinstance(itest.op, ast.And) else [itest])
            return [ast.If(test=ast.BoolOp(op=ast.And(), values=list(vals)), body=ibody, orelse=[])]
        # if a: (if b: X) with no else arms  ==  if a and b: X   (also when the inner statement is `if b: <nothing> else: X`)
        if not orelse and len(body) == 1 and isinstance(body[0], ast.If) and (not body[0].orelse or not body[0].body):
            inner = body[0]
            itest, ibody = (inner.test, inner.body) if not inner.orelse else (negate(inner.test), inner.orelse)
            if True:
                vals = (test.values if isinstance(test, ast.BoolOp) and isinstance(test.op, ast.And) else [test]) + (
                    itest.values if isinstance(itest, ast.BoolOp) and isinstance(itest.op, ast.And) else [itest]
                )
                return [ast.If(test=ast.BoolOp(op=ast.And(), values=list(vals)), body=ibody, orelse=[])]
        return [ast.If(test=test, body=body, orelse=orelse)]

    def _drop_dead(self, out: list) -> Tuple[list, bool]:
        for i, st in enumerate(out[:-1]):
            if terminates([st]):
                return out[: i + 1], True
        return out, False

    def _absorb_rest(self, out: list) -> Tuple[list, bool]:
        """`if c: A; return` + REST  ->  `if c: A; return  else: REST` (and the mirror image); same for try bodies."""
        for i in range(len(out) - 1, -1, -1):
            st = out[i]
            rest = out[i + 1 :]
            if not rest:
                continue
            if isinstance(st, ast.If):
                bt, et = terminates(st.body), terminates(st.orelse)
                if bt and not et:
                    new = ast.If(test=st.test, body=st.body, orelse=st.orelse + rest)
                elif et and not bt:
                    new = ast.If(test=st.test, body=st.body + rest, orelse=st.orelse)
                else:
                    continue
                return out[:i] + self._renorm_if(new), True
            if isinstance(st, ast.Try) and not st.finalbody and st.handlers and not terminates(st.body) and all(terminates(h.body) for h in st.handlers):
                st.orelse = self.block(st.orelse + rest)
                self._try_else_merge(st)
                return out[: i + 1], True
            if isinstance(st, ast.Try) and not st.finalbody and not st.orelse and terminates(st.body) and st.handlers:
                falls = [h for h in st.handlers if not terminates(h.body)]
                if len(falls) == 1:
                    h = falls[0]
                    h.body = self.block([s for s in h.body if not isinstance(s, ast.Pass)] + copy.deepcopy(rest))
                    return out[: i + 1], True
        return out, False

    def _try_else_merge(self, st: ast.Try) -> None:
        """try: ...; t = E  except H  else: X = t; REST   ->   try: ...; X = E  except H  else: REST
        (t used nowhere else; X a plain name or an attribute of a name: storing it cannot raise what H catches)"""
        while st.body and st.orelse:
            last, first = st.body[-1], st.orelse[0]
            if not (isinstance(last, ast.Assign) and len(last.targets) == 1 and isinstance(last.targets[0], ast.Name)):
                return
            t = last.targets[0].id
            if isinstance(first, ast.Return) and isinstance(first.value, ast.Name) and first.value.id == t and all(terminates(h.body) for h in st.handlers):
                if sum(count_name(st.orelse[1:], t)) or sum(count_name([h for h in st.handlers], t)) or sum(count_name(st.body[:-1], t)):
                    return
                st.body[-1] = ast.Return(value=last.value)
                st.orelse = []
                return
            if not (isinstance(first, ast.Assign) and len(first.targets) == 1 and isinstance(first.value, ast.Name) and first.value.id == t):
                return
            x = first.targets[0]
            if not (isinstance(x, ast.Name) or (isinstance(x, ast.Attribute) and isinstance(x.value, ast.Name))):
                return
            if sum(count_name(st.orelse[1:], t)) or sum(count_name([h for h in st.handlers], t)) or sum(count_name(st.body[:-1], t)):
                return
            st.body[-1] = ast.Assign(targets=[x], value=last.value)
            st.orelse = st.orelse[1:]

    def _hoist_suffix(self, out: list) -> Tuple[list, bool]:
        for i, st in enumerate(out):
            if isinstance(st, ast.If) and st.body and st.orelse and dump(st.body[-1]) == dump(st.orelse[-1]):
                last = st.body[-1]
                if isinstance(last, (ast.Continue, ast.Break, ast.Return)):
                    continue
                new = ast.If(test=st.test, body=st.body[:-1], orelse=st.orelse[:-1])
                return out[:i] + self._if_shape(new) + [last] + out[i + 1 :], True
        return out, False

    def _sink_return(self, out: list) -> Tuple[list, bool]:
        """if c: A else: B   followed by   return <simple>   ->   the return is copied to the end of both arms
        (and to the end of a try body and of its handlers: loading a name cannot raise)"""
        for i in range(len(out) - 1):
            st, nx = out[i], out[i + 1]
            if isinstance(st, ast.Try) and isinstance(nx, ast.Return) and not st.finalbody and not st.orelse and not terminates(st.body):
                v = nx.value
                if v is None or isinstance(v, (ast.Name, ast.Constant)):
                    st.body = self.block(st.body + [copy.deepcopy(nx)])
                    for h in st.handlers:
                        if not terminates(h.body):
                            h.body = self.block(h.body + [copy.deepcopy(nx)])
                    return out[: i + 1] + out[i + 2 :], True
            if isinstance(st, ast.If) and isinstance(nx, ast.Return) and not terminates(st.body) and not terminates(st.orelse):
                v = nx.value
                if v is None or sum(1 for _ in ast.walk(v)) <= 40:
                    new = ast.If(test=st.test, body=st.body + [copy.deepcopy(nx)], orelse=st.orelse + [copy.deepcopy(nx)])
                    return out[:i] + self._renorm_if(new) + out[i + 2 :], True
        return out, False

    def _merge_handlers(self, out: list) -> Tuple[list, bool]:
        """except A: H  except B: H   ->   except (A, B): H"""
        for st in out:
            if isinstance(st, ast.Try):
                hs = st.handlers
                for k in range(len(hs) - 1):
                    a, b = hs[k], hs[k + 1]
                    if a.type is not None and b.type is not None and a.name == b.name and dump(a.body) == dump(b.body):
                        ta = a.type.elts if isinstance(a.type, ast.Tuple) else [a.type]
                        tb = b.type.elts if isinstance(b.type, ast.Tuple) else [b.type]
                        a.type = ast.Tuple(elts=list(ta) + list(tb), ctx=ast.Load())
                        del hs[k + 1]
                        return out, True
        return out, False

    def _merge_ifexp(self, out: list) -> Tuple[list, bool]:
        for i, st in enumerate(out):
            if isinstance(st, ast.If) and len(st.body) == 1 and len(st.orelse) == 1:
                a, b = st.body[0], st.orelse[0]
                if isinstance(a, ast.Return) and isinstance(b, ast.Return) and a.value is not None and b.value is not None:
                    new: ast.stmt = ast.Return(value=ast.IfExp(test=st.test, body=a.value, orelse=b.value))
                elif (
                    isinstance(a, ast.Assign)
                    and isinstance(b, ast.Assign)
                    and len(a.targets) == 1
                    and len(b.targets) == 1
                    and dump(a.targets[0]) == dump(b.targets[0])
                    and is_simple(a.targets[0])
                ):
                    new = ast.Assign(targets=a.targets, value=ast.IfExp(test=st.test, body=a.value, orelse=b.value))
                else:
                    new2 = _merge_calls(st, a, b)
                    if new2 is None:
                        continue
                    new = new2
                return out[:i] + [new] + out[i + 1 :], True
            if isinstance(st, ast.If) and len(st.body) == 1 and not st.orelse and self.bound_names is not None:
                # if c: x = E   (x certainly bound before)  ->  x = E if c else x
                a = st.body[0]
                if isinstance(a, ast.Assign) and len(a.targets) == 1 and isinstance(a.targets[0], ast.Name) and a.targets[0].id in self.bound_names and call_free(st.test):
                    x = a.targets[0].id
                    new = ast.Assign(targets=a.targets, value=ast.IfExp(test=st.test, body=a.value, orelse=ast.Name(id=x, ctx=ast.Load())))
                    return out[:i] + [new] + out[i + 1 :], True
        return out, False

    def _try_return(self, out: list) -> Tuple[list, bool]:
        """try: ...; v = E  except H(terminating)   followed by   return v   ->   try: ...; return E  except H"""
        for i in range(len(out) - 1):
            st, nx = out[i], out[i + 1]
            if (
                isinstance(st, ast.Try)
                and not st.orelse
                and not st.finalbody
                and st.body
                and isinstance(nx, ast.Return)
                and isinstance(nx.value, ast.Name)
                and all(terminates(h.body) for h in st.handlers)
            ):
                last = st.body[-1]
                if isinstance(last, ast.Assign) and len(last.targets) == 1 and isinstance(last.targets[0], ast.Name) and last.targets[0].id == nx.value.id:
                    st.body = st.body[:-1] + [ast.Return(value=last.value)]
                    return out[: i + 1] + out[i + 2 :], True
        return out, False

    def _fold_restore(self, out: list) -> Tuple[list, bool]:
        """A = E; A = f(A)   ->   A = f(E)      A a plain attribute path (self.x), f a plain function name, A its only
        non-constant argument: nothing runs between the store and the load, and looking the name f up before E is
        evaluated instead of after cannot be observed."""
        for i in range(len(out) - 1):
            a, b = out[i], out[i + 1]
            if not (isinstance(a, ast.Assign) and isinstance(b, ast.Assign) and len(a.targets) == 1 and len(b.targets) == 1):
                continue
            t = a.targets[0]
            if not (isinstance(t, ast.Attribute) and isinstance(t.value, ast.Name)) or dump(t) != dump(b.targets[0]):
                continue
            v = b.value
            if not (isinstance(v, ast.Call) and isinstance(v.func, ast.Name) and not v.keywords and v.args):
                continue
            load = dump(t).replace("Store()", "Load()")
            hits = [k for k, x in enumerate(v.args) if dump(x) == load]
            others = [x for k, x in enumerate(v.args) if k not in hits]
            if len(hits) != 1 or not all(isinstance(x, ast.Constant) for x in others):
                continue
            if t.value.id in names_in(a.value) and any(isinstance(n, ast.Attribute) and dump(n) == load for n in ast.walk(a.value)):
                continue
            args = list(v.args)
            args[hits[0]] = a.value
            new = ast.Assign(targets=[t], value=ast.Call(func=v.func, args=args, keywords=[]))
            return out[:i] + [new] + out[i + 2 :], True
        return out, False

    def _disjoint_ifs(self, out: list) -> Tuple[list, bool]:
        """if A: X        followed by   if B: Y [elif C: Z ...] (no final else)     ->   if A: X elif B: Y [elif C: Z ...]
        when A excludes B, C, ... (ranges of one local name against numeric constants that do not meet) and X does not
        rebind that name: with A true the second statement does nothing, with A false the first one does nothing."""
        for i in range(len(out) - 2, -1, -1):
            a, b = out[i], out[i + 1]
            if not (isinstance(a, ast.If) and not a.orelse and isinstance(b, ast.If)):
                continue
            ra = _range_of(a.test)
            if ra is None:
                continue
            chain, cur, ok = [], b, True
            while True:
                rb = _range_of(cur.test)
                if rb is None or rb[0] != ra[0] or not _ranges_apart(ra, rb):
                    ok = False
                    break
                chain.append(cur)
                if not cur.orelse:
                    break
                if len(cur.orelse) == 1 and isinstance(cur.orelse[0], ast.If):
                    cur = cur.orelse[0]
                    continue
                ok = False
                break
            if not ok or _rebinds(a.body, ra[0]):
                continue
            new = ast.If(test=a.test, body=a.body, orelse=[b])
            return out[:i] + [new] + out[i + 2 :], True
        return out, False

    def _mirrored_range_loops(self, out: list) -> Tuple[list, bool]:
        """if x < y: for t in range(x, y): B    elif y < x: for t in range(y, x): B     ->   for t in range(min([x, y]), max([x, y])): B
        (x == y: nothing happens on either side)"""
        for i, st in enumerate(out):
            if not (isinstance(st, ast.If) and len(st.body) == 1 and len(st.orelse) == 1 and isinstance(st.orelse[0], ast.If) and not st.orelse[0].orelse and len(st.orelse[0].body) == 1):
                continue
            t1, t2 = st.test, st.orelse[0].test
            l1, l2 = st.body[0], st.orelse[0].body[0]

            def lt(t):
                if isinstance(t, ast.Compare) and len(t.ops) == 1 and isinstance(t.ops[0], ast.Lt) and isinstance(t.left, ast.Name) and isinstance(t.comparators[0], ast.Name):
                    return (t.left.id, t.comparators[0].id)
                return None

            def rng(l):
                if isinstance(l, ast.For) and not l.orelse and isinstance(l.target, ast.Name) and isinstance(l.iter, ast.Call) and isinstance(l.iter.func, ast.Name) and l.iter.func.id == "range" and len(l.iter.args) == 2 and not l.iter.keywords and all(isinstance(a, ast.Name) for a in l.iter.args):
                    return (l.iter.args[0].id, l.iter.args[1].id)
                return None

            p1, p2 = lt(t1), lt(t2)
            if p1 is None or p2 is None or p1 != (p2[1], p2[0]) or p1[0] == p1[1]:
                continue
            if rng(l1) != p1 or rng(l2) != p2:
                continue
            if l1.target.id in p1 or l2.target.id in p1 or _rebinds(l1.body, p1[0]) or _rebinds(l1.body, p1[1]):
                continue
            if _rebinds(l2.body, l2.target.id) or _rebinds(l1.body, l1.target.id):
                continue
            b2 = subst(copy.deepcopy(l2.body), {l2.target.id: ast.Name(id=l1.target.id, ctx=ast.Load())})[0]
            if [dump(x) for x in l1.body] != [dump(x) for x in b2]:
                continue
            pair = sorted([ast.Name(id=p1[0], ctx=ast.Load()), ast.Name(id=p1[1], ctx=ast.Load())], key=dump)
            mk = lambda f: ast.Call(func=ast.Name(id=f, ctx=ast.Load()), args=[ast.List(elts=copy.deepcopy(pair), ctx=ast.Load())], keywords=[])  # noqa: E731
            new = ast.For(target=l1.target, iter=ast.Call(func=ast.Name(id="range", ctx=ast.Load()), args=[mk("min"), mk("max")], keywords=[]), body=l1.body, orelse=[])
            return out[:i] + [new] + out[i + 1 :], True
        return out, False

    def _setdefault_idiom(self, out: list) -> Tuple[list, bool]:
        """if K in D: r = D[K]  else: r = <fresh display>; D[K] = r     ->     r = D.setdefault(K, <fresh display>)"""
        for i, st in enumerate(out):
            if not (isinstance(st, ast.If) and len(st.body) == 1 and len(st.orelse) == 2):
                continue
            t = st.test
            if not (isinstance(t, ast.Compare) and len(t.ops) == 1 and isinstance(t.ops[0], ast.In) and is_simple(t.left) and is_simple(t.comparators[0])):
                continue
            K, D = t.left, t.comparators[0]
            a, b1, b2 = st.body[0], st.orelse[0], st.orelse[1]
            sub = dump(ast.Subscript(value=D, slice=K, ctx=ast.Load()))
            if not (isinstance(a, ast.Assign) and len(a.targets) == 1 and isinstance(a.targets[0], ast.Name) and dump(a.value) == sub):
                continue
            r = a.targets[0].id
            if not (isinstance(b1, ast.Assign) and len(b1.targets) == 1 and isinstance(b1.targets[0], ast.Name) and b1.targets[0].id == r and isinstance(b1.value, (ast.List, ast.Dict, ast.Set)) and not ast.dump(b1.value).count("Name(")):
                continue
            if not (isinstance(b2, ast.Assign) and len(b2.targets) == 1 and dump(b2.targets[0]).replace("Store()", "Load()") == sub and isinstance(b2.value, ast.Name) and b2.value.id == r):
                continue
            new = ast.Assign(targets=[ast.Name(id=r, ctx=ast.Store())], value=ast.Call(func=ast.Attribute(value=D, attr="setdefault", ctx=ast.Load()), args=[K, b1.value], keywords=[]))
            return out[:i] + [new] + out[i + 1 :], True
        return out, False

    def _any_loop(self, out: list) -> Tuple[list, bool]:
        """for t in it: if c: return True      followed by  return False    ->   return any(c for t in it)
           for t in it: if c: return False     followed by  return True     ->   return all(not c for t in it)"""
        for i in range(len(out) - 1):
            st, nx = out[i], out[i + 1]
            if not (isinstance(st, ast.For) and not st.orelse and len(st.body) == 1 and isinstance(st.body[0], ast.If) and not st.body[0].orelse and len(st.body[0].body) == 1):
                continue
            inner = st.body[0]
            r1 = inner.body[0]
            if not (isinstance(r1, ast.Return) and isinstance(r1.value, ast.Constant) and isinstance(r1.value.value, bool) and isinstance(nx, ast.Return) and isinstance(nx.value, ast.Constant) and isinstance(nx.value.value, bool)):
                continue
            if r1.value.value is True and nx.value.value is False:
                fn, elt = "any", inner.test
            elif r1.value.value is False and nx.value.value is True:
                fn, elt = "all", negate(inner.test)
            else:
                continue
            gen = ast.GeneratorExp(elt=elt, generators=[ast.comprehension(target=st.target, iter=st.iter, ifs=[], is_async=0)])
            return out[:i] + [ast.Return(value=ast.Call(func=ast.Name(id=fn, ctx=ast.Load()), args=[gen], keywords=[]))] + out[i + 2 :], True
        return out, False

    def _store_to_load(self, out: list) -> Tuple[list, bool]:
        """T = v; S[T]   ->   T = v; S[v]     (T an attribute / constant-or-name subscript of a plain path, v a local name,
        the load the first thing S evaluates)"""
        for i in range(len(out) - 1):
            st, nx = out[i], out[i + 1]
            if not (isinstance(st, ast.Assign) and len(st.targets) == 1 and isinstance(st.value, ast.Name)):
                continue
            tgt = st.targets[0]
            if isinstance(tgt, ast.Subscript):
                if not (is_simple(tgt.value) and is_simple(tgt.slice)):
                    continue
            elif isinstance(tgt, ast.Attribute):
                if not is_simple(tgt.value):
                    continue
            else:
                continue
            want = dump(tgt).replace("Store()", "Load()")
            ev: list = []
            for h in _header_exprs(nx):
                _eval_order(h, ev)
            if any(k in ("effect", "opaque", "branch") for k, _ in ev[:0]):
                continue
            hit = None
            for h in _header_exprs(nx):
                for n in ast.walk(h):
                    if isinstance(n, (ast.Subscript, ast.Attribute)) and isinstance(n.ctx, ast.Load) and dump(n) == want:
                        hit = n
                        break
                if hit is not None:
                    break
            if hit is None:
                continue
            # nothing with an effect may be evaluated in S before the load
            inner = {id(x) for x in ast.walk(hit)}
            early = True
            for kind, n in ev:
                if id(n) in inner:
                    break
                if kind in ("effect", "opaque", "branch"):
                    early = False
                    break
            if not early:
                continue
            _replace_node(nx, hit, ast.Name(id=st.value.id, ctx=ast.Load()))
            return out, True
        return out, False

    def _table_dispatch(self, out: list) -> Tuple[list, bool]:
        """t = {k1: v1, ...}.get(K); if t is None: A else: B    ->    if K == k1: t = v1; B  elif ... else: t = None; A
        (a literal table with distinct constant keys and no None value; K a plain name)"""
        for i in range(len(out) - 1):
            st, nx = out[i], out[i + 1]
            if not (isinstance(st, ast.Assign) and len(st.targets) == 1 and isinstance(st.targets[0], ast.Name) and isinstance(st.value, ast.Call)):
                continue
            c = st.value
            if not (isinstance(c.func, ast.Attribute) and c.func.attr == "get" and isinstance(c.func.value, ast.Dict) and len(c.args) == 1 and not c.keywords and is_simple(c.args[0])):
                continue
            d = c.func.value
            if not d.keys or len(d.keys) > 12 or any(k is None or not isinstance(k, ast.Constant) or not isinstance(k.value, (str, int)) for k in d.keys):
                continue
            if any(isinstance(v, ast.Constant) and v.value is None for v in d.values) or len({repr(k.value) for k in d.keys}) != len(d.keys):
                continue
            t = st.targets[0].id
            if not (isinstance(nx, ast.If) and isinstance(nx.test, ast.Compare) and len(nx.test.ops) == 1 and isinstance(nx.test.ops[0], (ast.Is, ast.IsNot)) and isinstance(nx.test.left, ast.Name) and nx.test.left.id == t and isinstance(nx.test.comparators[0], ast.Constant) and nx.test.comparators[0].value is None):
                continue
            none_arm, some_arm = (nx.body, nx.orelse) if isinstance(nx.test.ops[0], ast.Is) else (nx.orelse, nx.body)
            key = c.args[0]
            chain: list = [ast.Assign(targets=[ast.Name(id=t, ctx=ast.Store())], value=ast.Constant(value=None))] + copy.deepcopy(none_arm)
            for k, v in reversed(list(zip(d.keys, d.values))):
                arm = [ast.Assign(targets=[ast.Name(id=t, ctx=ast.Store())], value=copy.deepcopy(v))] + copy.deepcopy(some_arm)
                chain = [ast.If(test=ast.Compare(left=copy.deepcopy(key), ops=[ast.Eq()], comparators=[k]), body=arm, orelse=chain)]
            return out[:i] + self.block(chain) + out[i + 2 :], True
        return out, False

    def _table_dispatch2(self, out: list) -> Tuple[list, bool]:
        """if K in {k1: v1, ...}: B[{...}[K]] else: A    ->    if K == k1: B[v1] elif ... else: A"""
        for i, st in enumerate(out):
            if not (isinstance(st, ast.If) and isinstance(st.test, ast.Compare) and len(st.test.ops) == 1 and isinstance(st.test.ops[0], ast.In)):
                continue
            key, d = st.test.left, st.test.comparators[0]
            if not (isinstance(d, ast.Dict) and is_simple(key) and d.keys and len(d.keys) <= 12):
                continue
            if any(k is None or not isinstance(k, ast.Constant) or not isinstance(k.value, (str, int)) for k in d.keys) or len({repr(k.value) for k in d.keys}) != len(d.keys):
                continue
            want = dump(ast.Subscript(value=d, slice=key, ctx=ast.Load()))
            chain: list = copy.deepcopy(st.orelse)
            for k, v in reversed(list(zip(d.keys, d.values))):
                arm = copy.deepcopy(st.body)

                class T(ast.NodeTransformer):
                    def visit_Subscript(s_, n: ast.Subscript):
                        if isinstance(n.ctx, ast.Load) and dump(n) == want:
                            return copy.deepcopy(v)
                        return s_.generic_visit(n)

                arm = [T().visit(x) for x in arm]
                chain = [ast.If(test=ast.Compare(left=copy.deepcopy(key), ops=[ast.Eq()], comparators=[k]), body=arm, orelse=chain)]
            return out[:i] + self.block(chain) + out[i + 1 :], True
        return out, False

    def _merge_equal_arms(self, out: list) -> Tuple[list, bool]:
        """if A: S else: (if B: S else: R)   ->   if A or B: S else: R      (B has no effect)"""
        for i, st in enumerate(out):
            if isinstance(st, ast.If) and len(st.orelse) == 1 and isinstance(st.orelse[0], ast.If) and st.body:
                inner = st.orelse[0]
                if call_free(inner.test) and dump(st.body) == dump(inner.body):
                    new = ast.If(test=ast.BoolOp(op=ast.Or(), values=[st.test, inner.test]), body=st.body, orelse=inner.orelse)
                    return out[:i] + self._if_shape(new) + out[i + 1 :], True
                pass
            if isinstance(st, ast.If) and len(st.body) == 1 and isinstance(st.body[0], ast.If) and st.orelse:
                # the mirror image (canonical polarity puts the shared arm last): if T: (if C: S else: R) else: S
                inner = st.body[0]
                if call_free(inner.test) and inner.orelse and dump(inner.body) == dump(st.orelse):
                    new = ast.If(test=ast.BoolOp(op=ast.And(), values=[st.test, negate(inner.test)]), body=inner.orelse, orelse=st.orelse)
                    return out[:i] + self._if_shape(new) + out[i + 1 :], True
                if call_free(inner.test) and dump(inner.orelse) == dump(st.orelse):
                    new = ast.If(test=ast.BoolOp(op=ast.And(), values=[st.test, inner.test]), body=inner.body, orelse=st.orelse)
                    return out[:i] + self._if_shape(new) + out[i + 1 :], True
            if isinstance(st, ast.If) and len(st.orelse) == 1 and isinstance(st.orelse[0], ast.If) and st.body:
                inner = st.orelse[0]
                if call_free(inner.test) and inner.orelse and dump(st.body) == dump(inner.orelse):
                    # if A: S else: (if B: R else: S)   ->   if A or not B: S else: R
                    new = ast.If(test=ast.BoolOp(op=ast.Or(), values=[st.test, negate(inner.test)]), body=st.body, orelse=inner.body)
                    return out[:i] + self._if_shape(new) + out[i + 1 :], True
        return out, False

    def _identity_loop(self, out: list) -> Tuple[list, bool]:
        """x = []; for t in it: x.append(t)   ->   x = list(it)"""
        for i in range(len(out) - 1):
            st, nx = out[i], out[i + 1]
            if (
                isinstance(st, ast.Assign)
                and len(st.targets) == 1
                and isinstance(st.targets[0], ast.Name)
                and isinstance(st.value, ast.List)
                and not st.value.elts
                and isinstance(nx, ast.For)
                and not nx.orelse
                and isinstance(nx.target, ast.Name)
                and len(nx.body) == 1
                and isinstance(nx.body[0], ast.Expr)
            ):
                c = nx.body[0].value
                x = st.targets[0].id
                if (
                    isinstance(c, ast.Call)
                    and isinstance(c.func, ast.Attribute)
                    and c.func.attr == "append"
                    and isinstance(c.func.value, ast.Name)
                    and c.func.value.id == x
                    and len(c.args) == 1
                    and isinstance(c.args[0], ast.Name)
                    and c.args[0].id == nx.target.id
                    and x not in names_in(nx.iter)
                ):
                    new = ast.Assign(targets=st.targets, value=ast.Call(func=ast.Name(id="list", ctx=ast.Load()), args=[nx.iter], keywords=[]))
                    return out[:i] + [new] + out[i + 2 :], True
        return out, False

    def _close_to_with(self, out: list) -> Tuple[list, bool]:
        """f = OPEN(...); try: B finally: f.close()   ->   with OPEN(...) as f: B"""
        for i in range(len(out) - 1):
            st, nx = out[i], out[i + 1]
            if (
                isinstance(st, ast.Assign)
                and len(st.targets) == 1
                and isinstance(st.targets[0], ast.Name)
                and isinstance(st.value, ast.Call)
                and isinstance(nx, ast.Try)
                and not nx.handlers
                and not nx.orelse
                and len(nx.finalbody) == 1
                and isinstance(nx.finalbody[0], ast.Expr)
            ):
                c = nx.finalbody[0].value
                f = st.targets[0].id
                if isinstance(c, ast.Call) and isinstance(c.func, ast.Attribute) and c.func.attr == "close" and isinstance(c.func.value, ast.Name) and c.func.value.id == f and not c.args:
                    w = ast.With(items=[ast.withitem(context_expr=st.value, optional_vars=ast.Name(id=f, ctx=ast.Store()))], body=nx.body)
                    return out[:i] + [w] + out[i + 2 :], True
        return out, False

    def _default_override(self, out: list) -> Tuple[list, bool]:
        """x = K (constant) immediately followed by a statement that may override x:
             x = K; if c: B            ->  if c: x = K; B  else: x = K           (x not read in c)
             x = K; try: x = E except H ->  try: x = E  except H': x = K; H
           and a dead store  x = K; x = E  (x not read in E)  ->  x = E."""
        for i in range(len(out) - 1):
            st, nx = out[i], out[i + 1]
            if not (isinstance(st, ast.Assign) and len(st.targets) == 1 and isinstance(st.targets[0], ast.Name) and isinstance(st.value, ast.Constant)):
                continue
            x = st.targets[0].id
            if isinstance(nx, ast.Assign) and len(nx.targets) == 1 and isinstance(nx.targets[0], ast.Name) and nx.targets[0].id == x and x not in names_in(nx.value):
                return out[:i] + out[i + 1 :], True
            if isinstance(nx, ast.If) and x not in names_in(nx.test) and count_name(nx, x)[1] > 0:
                new = ast.If(test=nx.test, body=[copy.deepcopy(st)] + nx.body, orelse=[copy.deepcopy(st)] + nx.orelse)
                return out[:i] + self._renorm_if(new) + out[i + 2 :], True
            if (
                isinstance(nx, ast.Try)
                and not nx.orelse
                and not nx.finalbody
                and len(nx.body) == 1
                and isinstance(nx.body[0], ast.Assign)
                and len(nx.body[0].targets) == 1
                and isinstance(nx.body[0].targets[0], ast.Name)
                and nx.body[0].targets[0].id == x
                and x not in names_in(nx.body[0].value)
            ):
                for h in nx.handlers:
                    h.body = self.block([copy.deepcopy(st)] + h.body)
                return out[:i] + out[i + 1 :], True
        return out, False

    # ---- single statements
    def stmt(self, st: ast.stmt) -> list:
        if isinstance(st, ast.Pass):
            return []
        if isinstance(st, ast.If):
            st.body = self.block(st.body)
            st.orelse = self.block(st.orelse)
            return self._if_shape(st)
        if isinstance(st, (ast.For, ast.AsyncFor)):
            st.body = strip_tail(self.block(st.body, loop=True), ast.Continue)
            st.orelse = self.block(st.orelse)
            if isinstance(st.iter, ast.Call) and isinstance(st.iter.func, ast.Name) and st.iter.func.id == "iter" and len(st.iter.args) == 1 and not st.iter.keywords:
                st.iter = st.iter.args[0]
            un = self._unroll(st)
            if un is not None:
                return un
            if isinstance(st.iter, ast.List) and all(isinstance(x, ast.Constant) for x in st.iter.elts):
                st.iter = ast.Tuple(elts=st.iter.elts, ctx=ast.Load())
            return [st]
        if isinstance(st, ast.While):
            st.body = strip_tail(self.block(st.body, loop=True), ast.Continue)
            st.orelse = self.block(st.orelse)
            if isinstance(st.test, ast.Constant) and st.test.value:
                st.test = ast.Constant(value=True)
            else:
                t_, sw_ = canon_test(st.test)
                st.test = negate(t_) if sw_ else t_
            return [st]
        if isinstance(st, ast.Try):
            st.body = self.block(st.body)
            for h in st.handlers:
                h.body = self.block(h.body)
                # the name bound by `except E as e` is alpha-renamed with the locals
            st.orelse = self.block(st.orelse)
            st.finalbody = self.block(st.finalbody)
            if not st.finalbody:
                self._try_else_merge(st)
            return [st]
        if isinstance(st, (ast.With, ast.AsyncWith)):
            st.body = self.block(st.body)
            return [st]
        if isinstance(st, FuncNode):
            st.body = strip_tail(self.block(st.body), ast.Return)
            return [st]
        if isinstance(st, ast.Assign):
            return self._assign(st)
        if (
            isinstance(st, ast.AugAssign)
            and isinstance(st.target, ast.Name)
            and isinstance(st.op, (ast.Add, ast.Sub, ast.Mult))
            and isinstance(st.value, ast.Constant)
            and type(st.value.value) in (int, float)
        ):
            # x += 1 on a number: the same as rebinding (a number cannot be updated in place)
            return [ast.Assign(targets=[ast.Name(id=st.target.id, ctx=ast.Store())], value=ast.BinOp(left=ast.Name(id=st.target.id, ctx=ast.Load()), op=st.op, right=st.value))]
        if isinstance(st, ast.AugAssign) and isinstance(st.op, ast.Add) and isinstance(st.target, ast.Name) and st.target.id in self.list_locals:
            # a local that is only ever bound to a list: x += y is x.extend(y)
            return self._expr_stmt(ast.Expr(value=ast.Call(func=ast.Attribute(value=ast.Name(id=st.target.id, ctx=ast.Load()), attr="extend", ctx=ast.Load()), args=[st.value], keywords=[])))
        if isinstance(st, ast.Return):
            if st.value is not None and isinstance(st.value, ast.Constant) and st.value.value is None:
                st.value = None
            if st.value is not None:
                pre, v = self._uncomp(st.value)
                if pre:
                    return self.block(pre) + [ast.Return(value=v)]
            return [st]
        if isinstance(st, ast.Expr):
            return self._expr_stmt(st)
        return [st]

    def _expr_stmt(self, st: ast.Expr) -> list:
        c = st.value
        if isinstance(c, ast.Call) and isinstance(c.func, ast.Attribute) and c.func.attr == "extend" and len(c.args) == 1 and not c.keywords and is_simple(c.func.value):
            recv = c.func.value
            arg = c.args[0]
            rp = _paths(recv)

            def app(e: ast.expr) -> ast.stmt:
                return ast.Expr(value=ast.Call(func=ast.Attribute(value=copy.deepcopy(recv), attr="append", ctx=ast.Load()), args=[e], keywords=[]))

            # x.extend([a, b])  ->  x.append(a); x.append(b)     (the elements do not look at x)
            if isinstance(arg, (ast.List, ast.Tuple)) and arg.elts and not any(isinstance(e, ast.Starred) for e in arg.elts) and not any(_paths(e) & rp for e in arg.elts) and all(call_free(e) for e in arg.elts):
                return [app(e) for e in arg.elts]
            # x.extend(e for t in it)  ->  for t in it: x.append(e)
            if isinstance(arg, ast.GeneratorExp) and len(arg.generators) == 1 and not arg.generators[0].is_async and not (_paths(arg) & rp):
                g = arg.generators[0]
                body: list = [app(arg.elt)]
                for cnd in reversed(g.ifs):
                    body = [ast.If(test=cnd, body=body, orelse=[])]
                return self.block([ast.For(target=g.target, iter=g.iter, body=body, orelse=[])])
        return [st]

    def _assign(self, st: ast.Assign) -> list:
        # a = b = v  ->  a = v; b = v   for simple v
        if len(st.targets) > 1 and is_simple(st.value):
            return [ast.Assign(targets=[t], value=copy.deepcopy(st.value)) for t in st.targets]
        if len(st.targets) > 1 and any(isinstance(t, ast.Name) for t in st.targets) and all(isinstance(t, ast.Name) or is_simple(t) or (isinstance(t, ast.Subscript) and is_simple(t.value) and is_simple(t.slice)) for t in st.targets):
            nm = next(t for t in st.targets if isinstance(t, ast.Name))
            rest_t = [t for t in st.targets if t is not nm]
            return [ast.Assign(targets=[nm], value=st.value)] + [ast.Assign(targets=[t], value=ast.Name(id=nm.id, ctx=ast.Load())) for t in rest_t]
        if len(st.targets) == 1 and isinstance(st.targets[0], ast.Name):
            pre, v = self._uncomp(st.value, into=st.targets[0].id)
            if pre:
                return self.block(pre)
        if len(st.targets) == 1 and not isinstance(st.targets[0], (ast.Name, ast.Tuple, ast.List)) and isinstance(st.value, (ast.ListComp, ast.DictComp)):
            pre, v = self._uncomp(st.value)
            if pre:
                return self.block(pre + [ast.Assign(targets=st.targets, value=v)])
        # (a, b) = [resolve1](D.get(k, (x, y)))  ->  default written as a list: it is only ever unpacked
        if len(st.targets) == 1 and isinstance(st.targets[0], (ast.Tuple, ast.List)):
            c = st.value
            if isinstance(c, ast.Call) and isinstance(c.func, ast.Name) and c.func.id == "resolve1" and len(c.args) == 1 and not c.keywords:
                c = c.args[0]
            if isinstance(c, ast.Call) and isinstance(c.func, ast.Attribute) and c.func.attr == "get" and len(c.args) == 2 and not c.keywords and isinstance(c.args[1], ast.Tuple) and all(isinstance(e, ast.Constant) or (isinstance(e, ast.UnaryOp) and isinstance(e.operand, ast.Constant)) for e in c.args[1].elts):
                c.args[1] = ast.List(elts=c.args[1].elts, ctx=ast.Load())
        # (lo, hi) = (y, x) if y < x else (x, y)  ->  lo = min([x, y]); hi = max([x, y])      (numbers)
        if len(st.targets) == 1 and isinstance(st.targets[0], ast.Tuple) and len(st.targets[0].elts) == 2 and all(isinstance(t, ast.Name) for t in st.targets[0].elts) and isinstance(st.value, ast.IfExp):
            v = st.value
            t = v.test
            if (
                isinstance(t, ast.Compare) and len(t.ops) == 1 and isinstance(t.ops[0], (ast.Lt, ast.LtE))
                and isinstance(t.left, ast.Name) and isinstance(t.comparators[0], ast.Name)
                and isinstance(v.body, ast.Tuple) and isinstance(v.orelse, ast.Tuple) and len(v.body.elts) == 2 and len(v.orelse.elts) == 2
            ):
                a_, b_ = t.left.id, t.comparators[0].id  # a_ < b_
                names = lambda tp: [e.id if isinstance(e, ast.Name) else None for e in tp.elts]  # noqa: E731
                tg = [x.id for x in st.targets[0].elts]
                if a_ != b_ and not ({a_, b_} & set(tg)) and tg[0] != tg[1]:
                    lohi = None
                    if names(v.body) == [a_, b_] and names(v.orelse) == [b_, a_]:
                        lohi = (tg[0], tg[1])
                    elif names(v.body) == [b_, a_] and names(v.orelse) == [a_, b_]:
                        lohi = (tg[1], tg[0])
                    if lohi is not None:
                        pair = sorted([ast.Name(id=a_, ctx=ast.Load()), ast.Name(id=b_, ctx=ast.Load())], key=dump)
                        mk = lambda f, tgt: ast.Assign(targets=[ast.Name(id=tgt, ctx=ast.Store())], value=ast.Call(func=ast.Name(id=f, ctx=ast.Load()), args=[ast.List(elts=copy.deepcopy(pair), ctx=ast.Load())], keywords=[]))  # noqa: E731
                        return [mk("min", lohi[0]), mk("max", lohi[1])]
        # q, r = divmod(a, b)  ->  q = a // b; r = a % b   (simple operands)
        if (
            len(st.targets) == 1
            and isinstance(st.targets[0], ast.Tuple)
            and len(st.targets[0].elts) == 2
            and all(isinstance(t, ast.Name) for t in st.targets[0].elts)
            and isinstance(st.value, ast.Call)
            and isinstance(st.value.func, ast.Name)
            and st.value.func.id == "divmod"
            and len(st.value.args) == 2
            and all(is_simple(a) for a in st.value.args)
            and not ({t.id for t in st.targets[0].elts} & (names_in(st.value.args[0]) | names_in(st.value.args[1])))
        ):
            q, r = st.targets[0].elts
            a_, b_ = st.value.args
            return [
                ast.Assign(targets=[q], value=ast.BinOp(left=copy.deepcopy(a_), op=ast.FloorDiv(), right=copy.deepcopy(b_))),
                ast.Assign(targets=[r], value=ast.BinOp(left=copy.deepcopy(a_), op=ast.Mod(), right=copy.deepcopy(b_))),
            ]
        # (a, b) = (x, y) with simple independent right-hand sides -> two assignments
        if len(st.targets) == 1 and isinstance(st.targets[0], ast.Tuple) and isinstance(st.value, ast.Tuple) and len(st.targets[0].elts) == len(st.value.elts):
            tg, vs = st.targets[0].elts, st.value.elts
            tnames = set()
            for t in tg:
                tnames |= names_in(t) if isinstance(t, ast.Name) else set()
            tattrs = {t.attr for t in tg if isinstance(t, ast.Attribute)}
            vattrs = {n.attr for v in vs for n in ast.walk(v) if isinstance(n, ast.Attribute)}
            if (
                all(isinstance(t, ast.Name) or (isinstance(t, ast.Attribute) and isinstance(t.value, ast.Name)) for t in tg)
                and all(is_simple(v) for v in vs)
                and not any(names_in(v) & tnames for v in vs)
                and not (tattrs & vattrs)
            ):
                return [ast.Assign(targets=[t], value=v) for t, v in zip(tg, vs)]
            # names bound to independent values: a, b = f(x), g(y)  ->  a = f(x); b = g(y)  (no value mentions a target)
            if all(isinstance(t, ast.Name) for t in tg) and len({t.id for t in tg}) == len(tg) and not any(names_in(v) & tnames for v in vs) and not any(isinstance(n, (ast.Lambda, ast.GeneratorExp)) for v in vs for n in ast.walk(v)):
                return [ast.Assign(targets=[t], value=v) for t, v in zip(tg, vs)]
        return [st]

    def _fresh_targets(self, v: ast.expr) -> ast.expr:
        """The variables of a comprehension are its own: before it is turned into a loop they get names nothing else uses."""
        v = copy.deepcopy(v)
        g = v.generators[0]  # type: ignore[attr-defined]
        names = {n.id for n in ast.walk(g.target) if isinstance(n, ast.Name)}
        if not names:
            return v
        self.fresh += 1
        ren = {n: f"{n}$c{self.fresh}" for n in names}
        parts = [g.target] + list(g.ifs) + ([v.elt] if hasattr(v, "elt") else [v.key, v.value])  # type: ignore[attr-defined]
        for part in parts:
            for n in ast.walk(part):
                if isinstance(n, ast.Name) and n.id in ren:
                    n.id = ren[n.id]
        return v

    def _uncomp(self, v: ast.expr, into: Optional[str] = None) -> Tuple[list, ast.expr]:
        """[e for t in it if c]  ->  tmp = []; for t in it: if c: tmp.append(e)"""
        if isinstance(v, (ast.ListComp, ast.DictComp)) and len(v.generators) == 1 and not v.generators[0].is_async:
            if into is not None and into in names_in(v):
                return [], v
            v = self._fresh_targets(v)
        if isinstance(v, ast.ListComp) and len(v.generators) == 1 and not v.generators[0].is_async:
            g = v.generators[0]
            if into is not None and into in names_in(v):
                return [], v
            name = into
            if name is None:
                self.fresh += 1
                name = f"comp${self.fresh}"
            app: ast.stmt = ast.Expr(value=ast.Call(func=ast.Attribute(value=ast.Name(id=name, ctx=ast.Load()), attr="append", ctx=ast.Load()), args=[v.elt], keywords=[]))
            body: list = [app]
            for c in reversed(g.ifs):
                body = [ast.If(test=c, body=body, orelse=[])]
            loop = ast.For(target=g.target, iter=g.iter, body=body, orelse=[])
            init = ast.Assign(targets=[ast.Name(id=name, ctx=ast.Store())], value=ast.List(elts=[], ctx=ast.Load()))
            return [init, loop], ast.Name(id=name, ctx=ast.Load())
        if isinstance(v, ast.DictComp) and len(v.generators) == 1 and not v.generators[0].is_async:
            g = v.generators[0]
            if into is not None and into in names_in(v):
                return [], v
            name = into
            if name is None:
                self.fresh += 1
                name = f"comp${self.fresh}"
            st: ast.stmt = ast.Assign(targets=[ast.Subscript(value=ast.Name(id=name, ctx=ast.Load()), slice=v.key, ctx=ast.Store())], value=v.value)
            body = [st]
            for c in reversed(g.ifs):
                body = [ast.If(test=c, body=body, orelse=[])]
            loop = ast.For(target=g.target, iter=g.iter, body=body, orelse=[])
            init = ast.Assign(targets=[ast.Name(id=name, ctx=ast.Store())], value=ast.Dict(keys=[], values=[]))
            return [init, loop], ast.Name(id=name, ctx=ast.Load())
        return [], v

    def _unroll(self, st: ast.For) -> Optional[list]:
        """for k in (lit1, lit2): B   ->  B[k:=lit1]; B[k:=lit2]   (no break/continue/else, k not assigned in B)"""
        if st.orelse or not isinstance(st.iter, (ast.Tuple, ast.List)):
            return None
        if not st.iter.elts or len(st.iter.elts) > 4:
            return None
        for n in _walk_loop_level(st.body):
            if isinstance(n, (ast.Break, ast.Continue)):
                return None
        if isinstance(st.target, ast.Name) and all(isinstance(x, ast.Constant) for x in st.iter.elts):
            keys = [st.target.id]
            rows = [[x] for x in st.iter.elts]
        elif (
            isinstance(st.target, ast.Tuple)
            and all(isinstance(t, ast.Name) for t in st.target.elts)
            and all(isinstance(x, ast.Tuple) and len(x.elts) == len(st.target.elts) and all(isinstance(c, ast.Constant) for c in x.elts) for x in st.iter.elts)
        ):
            keys = [t.id for t in st.target.elts]
            rows = [list(x.elts) for x in st.iter.elts]
        else:
            return None
        if any(count_name(st.body, k)[1] for k in keys):
            return None
        out: list = []
        for row in rows:
            b, _ = subst(copy.deepcopy(st.body), dict(zip(keys, row)))
            out.extend(b)
        return self.block(out)


def strip_tail(block: list, kind) -> list:
    """Remove a jump that is the last thing executed anyway (continue at the end of a loop body, bare return at the end of a function)."""
    if not block:
        return block
    last = block[-1]
    if isinstance(last, kind) and (kind is not ast.Return or last.value is None):
        return strip_tail(block[:-1], kind)
    if isinstance(last, ast.If):
        last.body = strip_tail(last.body, kind)
        last.orelse = strip_tail(last.orelse, kind)
        if not last.body and not last.orelse and call_free(last.test):
            return strip_tail(block[:-1], kind)
        if not last.body and last.orelse:
            last.test = negate(last.test)
            last.body, last.orelse = last.orelse, []
            t, sw = canon_test(last.test)
            if sw:
                last.test, last.body, last.orelse = t, last.orelse, last.body
    return block


# --------------------------------------------------------------------------------------------- temporaries
def _header_exprs(st: ast.stmt) -> List[ast.expr]:
    """Expressions of st evaluated exactly once when st starts executing, in evaluation order."""
    if isinstance(st, ast.Assign):
        return [st.value] + [t for t in st.targets if not isinstance(t, ast.Name)]
    if isinstance(st, ast.AugAssign):
        return [st.value] if isinstance(st.target, ast.Name) else []
    if isinstance(st, ast.Return):
        return [st.value] if st.value is not None else []
    if isinstance(st, ast.Expr):
        return [st.value]
    if isinstance(st, ast.If):
        return [st.test]
    if isinstance(st, (ast.For, ast.AsyncFor)):
        return [st.iter]
    if isinstance(st, ast.Raise):
        return [x for x in (st.exc, st.cause) if x is not None]
    if isinstance(st, ast.Assert):
        return [st.test]
    return []


def _eval_order(e: ast.AST, out: list) -> None:
    """Append ('load', Name) / ('effect', node) events in (approximate left-to-right) evaluation order."""
    if isinstance(e, ast.Name):
        out.append(("load", e))
        return
    if isinstance(e, ast.Lambda):
        return
    if isinstance(e, (ast.ListComp, ast.SetComp, ast.DictComp, ast.GeneratorExp)):
        out.append(("opaque", e))
        return
    if isinstance(e, ast.IfExp):
        _eval_order(e.test, out)
        out.append(("branch", e))
        return
    if isinstance(e, ast.BoolOp):
        _eval_order(e.values[0], out)
        out.append(("branch", e))
        return
    for ch in ast.iter_child_nodes(e):
        if isinstance(ch, (ast.expr_context, ast.operator, ast.unaryop, ast.cmpop, ast.boolop)):
            continue
        _eval_order(ch, out)
    if isinstance(e, ast.Call) and not (isinstance(e.func, ast.Name) and e.func.id in PURE_CALLS) and _dotted_name(e.func) not in PURE_DOTTED:
        # subscripts and arithmetic may raise but change nothing: a value moved past them is computed from the same state
        out.append(("effect", e))


def _first_use_is_early(st: ast.stmt, name: str) -> bool:
    """The single load of `name` in st's header is evaluated before anything that can have an effect or raise."""
    ev: list = []
    for h in _header_exprs(st):
        _eval_order(h, ev)
    for kind, n in ev:
        if kind == "load" and n.id == name:
            return True
        if kind in ("effect", "opaque", "branch"):
            return False
    return False


def _in_header(st: ast.stmt, name: str) -> int:
    return sum(count_name(h, name)[0] for h in _header_exprs(st))


def _path(e: ast.AST) -> Optional[Tuple[str, ...]]:
    """a.b.c -> ('a', 'b', 'c'); None when e is not a plain dotted chain."""
    parts: List[str] = []
    while isinstance(e, ast.Attribute):
        parts.append(e.attr)
        e = e.value
    if isinstance(e, ast.Name):
        parts.append(e.id)
        return tuple(reversed(parts))
    return None


def _paths(e: ast.AST) -> Set[Tuple[str, ...]]:
    """Maximal dotted chains read by the expression."""
    out: Set[Tuple[str, ...]] = set()

    def walk(n: ast.AST) -> None:
        pth = _path(n) if isinstance(n, (ast.Name, ast.Attribute)) else None
        if pth is not None:
            out.add(pth)
            return
        for ch in ast.iter_child_nodes(n):
            walk(ch)

    walk(e)
    return out


def _related(a: Tuple[str, ...], b: Tuple[str, ...]) -> str:
    """'eq' / 'a<b' (a strict prefix of b) / 'b<a' / ''"""
    if a == b:
        return "eq"
    if len(a) < len(b) and b[: len(a)] == a:
        return "a<b"
    if len(b) < len(a) and a[: len(b)] == b:
        return "b<a"
    return ""


def may_disturb(st: ast.AST, value: ast.expr, ignore_targets_of: Optional[ast.stmt] = None) -> bool:
    """Can executing `st` change what `value` evaluates to?  value is call-free apart from pure builtins; it reads the
    bindings of its dotted paths and, if it subscripts or measures them, their contents."""
    P = _paths(value)
    reads_content = any(isinstance(n, (ast.Subscript, ast.Call)) for n in ast.walk(value))
    own_targets: Set[int] = set()
    if ignore_targets_of is not None:
        tg = getattr(ignore_targets_of, "targets", None) or ([ignore_targets_of.target] if hasattr(ignore_targets_of, "target") else [])
        for t in tg:
            for n in ast.walk(t):
                own_targets.add(id(n))

    def hits(r: Optional[Tuple[str, ...]], rebinding: bool) -> bool:
        """r: the path that is rebound (rebinding) or whose object may be mutated (not rebinding)."""
        if r is None:
            return False
        for p_ in P:
            rel = _related(r, p_)
            if rebinding:
                if rel in ("eq", "a<b"):
                    return True
                if rel == "b<a" and reads_content:
                    return True
            else:
                if rel == "a<b":
                    return True  # the object holding the attribute may rebind it
                if rel in ("eq", "b<a") and reads_content:
                    return True
        return False

    for n in ast.walk(st):
        if id(n) in own_targets:
            continue
        if isinstance(n, ast.Name) and isinstance(n.ctx, (ast.Store, ast.Del)):
            if hits((n.id,), True):
                return True
        elif isinstance(n, ast.Attribute) and isinstance(n.ctx, (ast.Store, ast.Del)):
            if hits(_path(n), True):
                return True
        elif isinstance(n, ast.Subscript) and isinstance(n.ctx, (ast.Store, ast.Del)):
            if hits(_path(n.value), False):
                return True
        elif isinstance(n, ast.AugAssign):
            t = n.target
            if isinstance(t, ast.Subscript):
                if hits(_path(t.value), False):
                    return True
            elif hits(_path(t), True):
                return True
        elif isinstance(n, ast.Call):
            if isinstance(n.func, ast.Name) and n.func.id in PURE_CALLS:
                continue
            if isinstance(n.func, ast.Attribute) and hits(_path(n.func.value), False):
                return True
            for a in list(n.args) + [k.value for k in n.keywords]:
                stack = [a]
                while stack:
                    x = stack.pop()
                    if isinstance(x, (ast.Name, ast.Attribute)):
                        if hits(_path(x), False):
                            return True
                    elif isinstance(x, (ast.Tuple, ast.List, ast.Starred, ast.Set)):
                        stack.extend(ast.iter_child_nodes(x))
                    elif isinstance(x, ast.Dict):
                        stack.extend(v for v in x.values if v is not None)
        elif isinstance(n, (ast.Yield, ast.YieldFrom, ast.Await)):
            # control leaves the function: anything reachable may change
            if any(len(p_) > 1 for p_ in P) or reads_content:
                return True
    return False


def forward_substitute(fn: ast.AST, recurse: bool = True) -> bool:
    """Remove temporaries.  (1) t = E; S[t]  with t used exactly once, in the header of the next statement, before
    anything with an effect.  (2) t = P with P call-free: every later use in the same block is replaced when nothing in
    between can change P's value."""
    changed_any = False

    def run(block: list) -> bool:
        i = 0
        changed = False
        while i < len(block):
            st = block[i]
            for f in ("body", "orelse", "finalbody"):
                sub = getattr(st, f, None)
                if isinstance(sub, list) and sub and not isinstance(st, FuncNode + (ast.ClassDef,)):
                    changed |= run(sub)
            for h in getattr(st, "handlers", []) or []:
                changed |= run(h.body)
            if isinstance(st, ast.Assign) and len(st.targets) == 1 and isinstance(st.targets[0], ast.Name):
                t = st.targets[0].id
                loads, stores = count_name(fn.body, t)  # type: ignore[attr-defined]
                is_param = any(a.arg == t for a in fn.args.posonlyargs + fn.args.args + fn.args.kwonlyargs)  # type: ignore[attr-defined]
                if loads == 0 and not is_param and call_free(st.value) and not any(isinstance(n, (ast.Subscript, ast.Attribute)) for n in ast.walk(st.value)):
                    # a value that is never read and whose computation cannot fail or have an effect
                    del block[i]
                    changed = True
                    continue
                if stores == 1 and not is_param and loads >= 1 and i + 1 < len(block):
                    nx = block[i + 1]
                    if loads == 1 and _in_header(nx, t) == 1 and _first_use_is_early(nx, t):
                        _replace_header(nx, t, st.value)
                        del block[i]
                        changed = True
                        continue
                    # the single use is a few plain assignments further down: t = E; a = <pure>; S[t]
                    if loads == 1:
                        k = i + 1
                        vn = names_in(st.value)
                        while (
                            k < len(block)
                            and isinstance(block[k], ast.Assign)
                            and len(block[k].targets) == 1
                            and isinstance(block[k].targets[0], ast.Name)
                            and block[k].targets[0].id not in vn
                            and call_free(block[k].value)
                            and t not in names_in(block[k].value)
                        ):
                            k += 1
                        if i + 1 < k < len(block) and _in_header(block[k], t) == 1 and _first_use_is_early(block[k], t):
                            _replace_header(block[k], t, st.value)
                            del block[i]
                            changed = True
                            continue
                    # an effect-free value used in one arm of the next `if` only: computed there
                    if loads == 1 and isinstance(nx, ast.If) and call_free(st.value) and call_free(nx.test) and t not in names_in(nx.test):
                        arms = [a for a in (nx.body, nx.orelse) if count_name(a, t)[0]]
                        if len(arms) == 1 and not may_disturb(ast.Expr(value=nx.test), st.value):
                            arms[0].insert(0, st)
                            del block[i]
                            changed = True
                            continue
                    if call_free(st.value, fresh_matters=True) and t not in names_in(st.value):
                        rest = block[i + 1 :]
                        if count_name(rest, t)[0] == loads:
                            # find the last statement using t; nothing up to it may disturb the value
                            last = max(k for k, s in enumerate(rest) if count_name(s, t)[0])
                            window = rest[: last + 1]
                            lastst = window[-1]
                            simple_last = isinstance(lastst, (ast.Assign, ast.AugAssign)) and count_name(getattr(lastst, "targets", None) or [lastst.target], t)[0] == 0
                            ok = not any(may_disturb(s, st.value) for s in window[:-1]) and not may_disturb(lastst, st.value, ignore_targets_of=lastst if simple_last else None)
                            if ok and not _used_in_nested_scope(window, t):
                                for k in range(len(window)):
                                    block[i + 1 + k], _ = subst(block[i + 1 + k], {t: st.value})
                                del block[i]
                                changed = True
                                continue
            i += 1
        return changed

    for _ in range(10):
        if not run(fn.body):  # type: ignore[attr-defined]
            break
        changed_any = True
    if recurse:
        for n in ast.walk(fn):
            if isinstance(n, FuncNode) and n is not fn:
                changed_any |= forward_substitute(n, recurse=False)
    return changed_any


def _used_in_nested_scope(stmts: list, name: str) -> bool:
    for s in stmts:
        for n in ast.walk(s):
            if isinstance(n, FuncNode + (ast.Lambda,)) and count_name(n, name)[0]:
                return True
    return False


def _replace_header(st: ast.stmt, name: str, value: ast.expr) -> None:
    m = {name: value}
    if isinstance(st, ast.Assign):
        st.value, _ = subst(st.value, m)
        st.targets = [subst(t, m)[0] if not isinstance(t, ast.Name) else t for t in st.targets]
    elif isinstance(st, ast.AugAssign):
        st.value, _ = subst(st.value, m)
    elif isinstance(st, ast.Return):
        st.value, _ = subst(st.value, m)
    elif isinstance(st, ast.Expr):
        st.value, _ = subst(st.value, m)
    elif isinstance(st, ast.If):
        st.test, _ = subst(st.test, m)
    elif isinstance(st, (ast.For, ast.AsyncFor)):
        st.iter, _ = subst(st.iter, m)
    elif isinstance(st, ast.Raise):
        if st.exc is not None:
            st.exc, _ = subst(st.exc, m)
        if st.cause is not None:
            st.cause, _ = subst(st.cause, m)
    elif isinstance(st, ast.Assert):
        st.test, _ = subst(st.test, m)


# --------------------------------------------------------------------------------------------- inlining
class Ctx:
    """What may be inlined into a function: helpers (functions that exist on this side only) and constants likewise."""

    def __init__(self, helpers: Dict[str, ast.AST], consts: Dict[str, ast.expr], cls: Optional[str], module_names: Set[str]):
        self.helpers = helpers  # 'f' / 'Cls.m' -> def node
        self.consts = consts  # 'NAME' / 'Cls.NAME' -> literal
        self.cls = cls
        self.module_names = module_names
        self.counter = 0
        self.use_extra = False

    def resolve(self, func: ast.expr, self_name: Optional[str]) -> Optional[Tuple[str, ast.AST, bool]]:
        """(key, def node, bound) for a call target that is an inlinable helper."""
        r = self._resolve(func, self_name)
        if r is not None and _is_generator(r[1]):
            return None  # calling a generator function runs none of its body
        return r

    def _resolve(self, func: ast.expr, self_name: Optional[str]) -> Optional[Tuple[str, ast.AST, bool]]:
        if isinstance(func, ast.Name) and func.id in self.helpers:
            return func.id, self.helpers[func.id], False
        if self.use_extra:
            # a new function of another changed module, called by its imported name or as <module>.<name>
            if isinstance(func, ast.Name) and func.id in EXTRA_HELPERS and func.id not in self.module_names:
                return func.id, EXTRA_HELPERS[func.id], False
            if isinstance(func, ast.Attribute) and isinstance(func.value, ast.Name) and func.attr in EXTRA_HELPERS and func.value.id not in (self_name, "self", "cls"):
                return func.attr, EXTRA_HELPERS[func.attr], False
        if isinstance(func, ast.Attribute) and isinstance(func.value, ast.Name):
            base = func.value.id
            if self.cls is not None and base in (self_name, "cls", self.cls.split(".")[-1]) and base is not None:
                key = f"{self.cls}.{func.attr}"
                if key in self.helpers:
                    return key, self.helpers[key], True
                # a helper added to a base class and called through self in a subclass (never when this class defines the
                # method itself: a new definition elsewhere is then an override, not a helper of this call)
                cands = [k for k in self.helpers if "." in k and k.rsplit(".", 1)[1] == func.attr]
                if len(cands) == 1 and key not in self.module_names and not any(k.rsplit(".", 1)[-1] == func.attr for k in self.module_names if k not in self.helpers):
                    return cands[0], self.helpers[cands[0]], True
            key = f"{base}.{func.attr}"
            if key in self.helpers and base not in ("self",):
                return key, self.helpers[key], True
        return None


def _is_generator(fn: ast.AST) -> bool:
    if isinstance(fn, ast.AsyncFunctionDef):
        return True
    stack = list(fn.body)  # type: ignore[attr-defined]
    while stack:
        n = stack.pop()
        if isinstance(n, (ast.Yield, ast.YieldFrom, ast.Await)):
            return True
        if isinstance(n, FuncNode + (ast.Lambda, ast.ClassDef)):
            continue
        stack.extend(ast.iter_child_nodes(n))
    return False


def _decorators(fn: ast.AST) -> Set[str]:
    out = set()
    for d in fn.decorator_list:  # type: ignore[attr-defined]
        if isinstance(d, ast.Name):
            out.add(d.id)
        elif isinstance(d, ast.Attribute):
            out.add(d.attr)
        else:
            out.add("?")
    return out


def _bind_args(helper: ast.AST, call: ast.Call, bound: bool, recv: Optional[ast.expr]) -> Dict[str, ast.expr]:
    a = helper.args  # type: ignore[attr-defined]
    if a.vararg or a.kwarg or a.posonlyargs or any(isinstance(x, ast.Starred) for x in call.args) or any(k.arg is None for k in call.keywords):
        raise NotInlinable("varargs")
    params = [x.arg for x in a.args]
    decos = _decorators(helper)
    if decos - {"staticmethod", "classmethod"}:
        raise NotInlinable("decorated")
    mapping: Dict[str, ast.expr] = {}
    if bound and "staticmethod" not in decos:
        if not params:
            raise NotInlinable("no self")
        mapping[params[0]] = recv if recv is not None else ast.Name(id="self", ctx=ast.Load())
        params = params[1:]
    if len(call.args) > len(params):
        raise NotInlinable("arity")
    for p, v in zip(params, call.args):
        mapping[p] = v
    for k in call.keywords:
        if k.arg not in params or k.arg in mapping:
            raise NotInlinable("keyword")
        mapping[k.arg] = k.value
    defaults = a.defaults
    dparams = [x.arg for x in a.args][len(a.args) - len(defaults) :]
    for p, d in zip(dparams, defaults):
        mapping.setdefault(p, d)
    for x, d in zip(a.kwonlyargs, a.kw_defaults):
        if x.arg not in mapping:
            if d is None:
                raise NotInlinable("kwonly")
            mapping[x.arg] = d
    for p in [x.arg for x in a.args] + [x.arg for x in a.kwonlyargs]:
        if p not in mapping:
            raise NotInlinable("missing arg")
    return mapping


def _helper_locals(helper: ast.AST) -> Set[str]:
    out = set()
    for n in ast.walk(helper):
        if isinstance(n, ast.Name) and isinstance(n.ctx, ast.Store):
            out.add(n.id)
        elif isinstance(n, FuncNode) and n is not helper:
            out.add(n.name)
    return out


def _is_recursive(key: str, helper: ast.AST) -> bool:
    name = key.split(".")[-1]
    for n in ast.walk(helper):
        if isinstance(n, ast.Call):
            f = n.func
            if isinstance(f, ast.Name) and f.id == name:
                return True
            if isinstance(f, ast.Attribute) and f.attr == name:
                return True
    return False


def _returns_only_at_tail(block: list) -> bool:
    """Every `return` of the block is the last thing executed on its path (so it can be replaced by an assignment)."""

    def ok(b: list, tail: bool) -> bool:
        for i, st in enumerate(b):
            is_last = tail and i == len(b) - 1
            if isinstance(st, ast.Return):
                if not is_last:
                    return False
            elif isinstance(st, ast.If):
                if not ok(st.body, is_last) or not ok(st.orelse, is_last):
                    return False
            elif isinstance(st, ast.Try):
                t = is_last and not st.finalbody
                if not ok(st.body, t and not st.orelse) or not ok(st.orelse, t) or not ok(st.finalbody, False):
                    return False
                for h in st.handlers:
                    if not ok(h.body, t):
                        return False
            elif isinstance(st, (ast.With, ast.AsyncWith)):
                if not ok(st.body, is_last):
                    return False
            elif isinstance(st, (ast.For, ast.While, ast.AsyncFor)):
                if not ok(st.body, False) or not ok(st.orelse, False):
                    return False
            elif isinstance(st, FuncNode + (ast.ClassDef,)):
                continue
        return True

    return ok(block, True)


def _replace_returns(block: list, make) -> list:
    out = []
    for st in block:
        if isinstance(st, ast.Return):
            out.extend(make(st.value))
            continue
        if isinstance(st, FuncNode + (ast.ClassDef,)):
            out.append(st)
            continue
        for f in ("body", "orelse", "finalbody"):
            sub = getattr(st, f, None)
            if isinstance(sub, list):
                setattr(st, f, _replace_returns(sub, make))
        for h in getattr(st, "handlers", []) or []:
            h.body = _replace_returns(h.body, make)
        out.append(st)
    return out


def _falls_through(block: list) -> bool:
    return not terminates(block)


class Inliner:
    def __init__(self, ctx: Ctx, fn: ast.AST):
        self.ctx = ctx
        self.fn = fn
        a = fn.args  # type: ignore[attr-defined]
        decos = _decorators(fn)
        self.self_name = a.args[0].arg if (ctx.cls is not None and a.args and "staticmethod" not in decos) else None
        self.norm = Normaliser()
        self.pending: List[ast.AST] = []

    def _prepared(self, key: str, helper: ast.AST) -> ast.AST:
        h = copy.deepcopy(helper)
        _Strip().visit(h)
        # its own helpers first
        Inliner(self.ctx_without(key), h).run()
        h.body = strip_tail(self.norm.block(h.body), ast.Return)  # type: ignore[attr-defined]
        forward_substitute(h)
        h.body = strip_tail(self.norm.block(h.body), ast.Return)  # type: ignore[attr-defined]
        return h

    def ctx_without(self, key: str) -> Ctx:
        c = Ctx({k: v for k, v in self.ctx.helpers.items() if k != key}, self.ctx.consts, self.ctx.cls, self.ctx.module_names)
        c.use_extra = self.ctx.use_extra
        return c

    def run(self) -> bool:
        changed = False
        for _ in range(6):
            c = self._consts(self.fn)
            c |= self._block(self.fn.body)  # type: ignore[attr-defined]
            if self.pending:
                self.fn.body[0:0] = self.pending  # type: ignore[attr-defined]
                self.pending = []
            if not c:
                break
            changed = True
        return changed

    # -- constants
    def _consts(self, fn: ast.AST) -> bool:
        if not self.ctx.consts:
            return False
        local = _helper_locals(fn) | {a.arg for a in fn.args.args + fn.args.kwonlyargs}  # type: ignore[attr-defined]
        consts = self.ctx.consts
        cls = self.ctx.cls
        self_name = self.self_name
        hit = [False]

        class T(ast.NodeTransformer):
            def visit_Name(s, n: ast.Name):
                if isinstance(n.ctx, ast.Load) and n.id in consts and n.id not in local:
                    hit[0] = True
                    return copy.deepcopy(consts[n.id])
                return n

            def visit_Attribute(s, n: ast.Attribute):
                s.generic_visit(n)
                if isinstance(n.ctx, ast.Load) and isinstance(n.value, ast.Name):
                    for base in (_mro(cls) if (cls and n.value.id in (self_name, "cls", cls.split(".")[-1])) else []) + [n.value.id]:
                        k = f"{base}.{n.attr}"
                        if k in consts:
                            hit[0] = True
                            return copy.deepcopy(consts[k])
                return n

        T().visit(fn)
        return hit[0]

    # -- calls
    def _block(self, block: list) -> bool:
        changed = False
        i = 0
        while i < len(block):
            st = block[i]
            if isinstance(st, FuncNode + (ast.ClassDef,)):
                if isinstance(st, FuncNode):
                    changed |= self._block(st.body)
                i += 1
                continue
            for f in ("body", "orelse", "finalbody"):
                sub = getattr(st, f, None)
                if isinstance(sub, list) and sub:
                    changed |= self._block(sub)
            for h in getattr(st, "handlers", []) or []:
                changed |= self._block(h.body)
            rep = self._stmt(st)
            if rep is not None:
                block[i : i + 1] = rep
                changed = True
                continue  # re-examine what was spliced in
            i += 1
        return changed

    def _find_call(self, st: ast.stmt) -> Optional[Tuple[ast.Call, str, ast.AST, bool]]:
        for h in _header_exprs(st) + ([st.target] if isinstance(st, ast.AugAssign) else []):
            for n in ast.walk(h):
                if isinstance(n, ast.Call):
                    r = self.ctx.resolve(n.func, self.self_name)
                    if r is not None:
                        return n, r[0], r[1], r[2]
        return None

    def _stmt(self, st: ast.stmt) -> Optional[list]:
        found = self._find_call(st)
        if found is None:
            # helper passed as a value (key=helper, sub(helper, ...)) with a single-expression body -> lambda
            return self._as_value(st)
        call, key, helper, bound = found
        if _is_recursive(key, helper):
            return self._nest(st, key, helper, bound)
        try:
            h = self._prepared(key, helper)
            recv = call.func.value if (bound and isinstance(call.func, ast.Attribute)) else None
            if recv is not None and isinstance(recv, ast.Name) and recv.id not in (self.self_name, "self"):
                # Cls.helper(...) on a plain method needs an explicit receiver argument
                if "staticmethod" not in _decorators(h) and "classmethod" not in _decorators(h):
                    raise NotInlinable("unbound call")
            mapping = _bind_args(h, call, bound, recv)
        except NotInlinable:
            return None
        self.ctx.counter += 1
        tag = f"${self.ctx.counter}"
        hl = _helper_locals(h) - set(mapping)  # re-assigned parameters are bound below
        body = copy.deepcopy(h.body)  # type: ignore[attr-defined]
        for n in ast.walk(ast.Module(body=body, type_ignores=[])):
            if isinstance(n, ast.Name) and n.id in hl:
                n.id = f"{n.id}{tag}"
            elif isinstance(n, FuncNode) and n.name in hl:
                n.name = f"{n.name}{tag}"
        # parameters: direct substitution when the argument is simple or the parameter is used at most once and not assigned
        pre: list = []
        direct: Dict[str, ast.expr] = {}
        for p, v in mapping.items():
            loads, stores = count_name(body, p)
            if stores == 0 and (is_simple(v) or loads <= 1):
                direct[p] = v
            else:
                pn = f"{p}{tag}"
                pre.append(ast.Assign(targets=[ast.Name(id=pn, ctx=ast.Store())], value=v))
                direct[p] = ast.Name(id=pn, ctx=ast.Load())
                if stores:
                    for n in ast.walk(ast.Module(body=body, type_ignores=[])):
                        if isinstance(n, ast.Name) and n.id == p:
                            n.id = pn
                    direct.pop(p)
        body, _ = subst(body, direct)
        # single `return E`: expression-level replacement
        if len(body) == 1 and isinstance(body[0], ast.Return) and body[0].value is not None and not pre:
            _replace_node(st, call, body[0].value)
            return [st]
        # the call is the whole statement
        if isinstance(st, ast.Expr) and st.value is call:
            if not _returns_only_at_tail(body):
                return None
            return pre + _replace_returns(body, lambda v: [] if (v is None or is_simple(v)) else [ast.Expr(value=v)])
        # return <ctx>[call]: returns of the helper may stay returns wherever they are
        if isinstance(st, ast.Return) and self._call_is_early(st, call):
            def mk(v, st=st, call=call):
                s2 = copy.deepcopy(st)
                c2 = _find_twin(s2, st, call)
                _replace_node(s2, c2, v if v is not None else ast.Constant(value=None))
                return [s2]

            out = pre + _replace_returns(body, mk)
            if _falls_through(body):
                out += mk(ast.Constant(value=None))
            return out
        # x = <ctx>[call] etc.: the helper's result goes through a fresh name
        if not self._call_is_early(st, call) or not _returns_only_at_tail(body):
            return None
        rn = f"ret{tag}"
        if _falls_through(body):
            body = body + [ast.Return(value=ast.Constant(value=None))]
            if not _returns_only_at_tail(body):
                return None
        new_body = _replace_returns(body, lambda v: [ast.Assign(targets=[ast.Name(id=rn, ctx=ast.Store())], value=v if v is not None else ast.Constant(value=None))])
        _replace_node(st, call, ast.Name(id=rn, ctx=ast.Load()))
        return pre + new_body + [st]

    def _nest(self, st: ast.stmt, key: str, helper: ast.AST, bound: bool) -> Optional[list]:
        """A recursive helper cannot be inlined: a copy of it becomes a local function of the caller (the form it would
        have had as a closure), and the caller's references go to that copy."""
        decos = _decorators(helper)
        if decos - {"staticmethod"}:
            return None
        name = key.split(".")[-1]
        h = copy.deepcopy(helper)
        _Strip().visit(h)
        self.ctx.counter += 1
        local = f"{name}${self.ctx.counter}"
        drop_self = bound and "staticmethod" not in decos
        hself = h.args.args[0].arg if (drop_self and h.args.args) else None  # type: ignore[attr-defined]
        if drop_self:
            if not h.args.args or self.self_name is None:  # type: ignore[attr-defined]
                return None
            h.args.args = h.args.args[1:]  # type: ignore[attr-defined]
        h.decorator_list = []  # type: ignore[attr-defined]
        h.name = local  # type: ignore[attr-defined]

        def redirect(root: ast.AST, self_names: Set[Optional[str]]) -> None:
            for n in ast.walk(root):
                for f, v in list(ast.iter_fields(n)):
                    vs = v if isinstance(v, list) else [v]
                    for i, x in enumerate(vs):
                        hit = False
                        if isinstance(x, ast.Name) and x.id == name and not bound:
                            hit = True
                        elif bound and isinstance(x, ast.Attribute) and x.attr == name and isinstance(x.value, ast.Name) and (x.value.id in self_names or x.value.id == (self.ctx.cls or "").split(".")[-1]):
                            hit = True
                        if hit:
                            new = ast.Name(id=local, ctx=ast.Load())
                            if isinstance(v, list):
                                v[i] = new
                            else:
                                setattr(n, f, new)

        redirect(h, {hself, "cls"})
        if hself is not None and hself != self.self_name:
            for n in ast.walk(h):
                if isinstance(n, ast.Name) and n.id == hself:
                    n.id = self.self_name  # type: ignore[assignment]
        redirect(self.fn, {self.self_name, "cls"})
        self.pending.append(h)
        # the helper is now an ordinary nested function of this caller: not a candidate any more
        self.ctx = self.ctx_without(key)
        return [st]

    def _call_is_early(self, st: ast.stmt, call: ast.Call) -> bool:
        """Nothing with an effect is evaluated in st before the call's own arguments."""
        ev: list = []
        for h in _header_exprs(st):
            _eval_order(h, ev)
        inner = {id(n) for n in ast.walk(call)}
        for kind, n in ev:
            if n is call:
                return True
            if id(n) in inner:
                continue
            if kind in ("effect", "opaque", "branch"):
                return False
        return False

    def _as_value(self, st: ast.stmt) -> Optional[list]:
        for h in _header_exprs(st):
            for n in ast.walk(h):
                if isinstance(n, ast.Call):
                    cands = list(n.args) + [k.value for k in n.keywords]
                    for a in cands:
                        r = self.ctx.resolve(a, self.self_name) if isinstance(a, (ast.Name, ast.Attribute)) else None
                        if r is None:
                            continue
                        key, helper, bound = r
                        if _is_recursive(key, helper):
                            continue
                        hp = self._prepared(key, helper)
                        if len(hp.body) == 1 and isinstance(hp.body[0], ast.Return) and hp.body[0].value is not None:  # type: ignore[attr-defined]
                            args = copy.deepcopy(hp.args)  # type: ignore[attr-defined]
                            if bound and "staticmethod" not in _decorators(hp):
                                if isinstance(a, ast.Attribute) and isinstance(a.value, ast.Name) and a.value.id in (self.self_name, "self"):
                                    args.args = args.args[1:]
                                else:
                                    continue
                            lam = ast.Lambda(args=args, body=hp.body[0].value)  # type: ignore[attr-defined]
                            _replace_node(st, a, lam)
                            return [st]
        return None


def _replace_node(root: ast.AST, old: ast.AST, new: ast.AST) -> None:
    for parent in ast.walk(root):
        for f, v in ast.iter_fields(parent):
            if v is old:
                setattr(parent, f, new)
                return
            if isinstance(v, list):
                for i, x in enumerate(v):
                    if x is old:
                        v[i] = new
                        return
    raise NotInlinable("node not found")


def _find_twin(copy_root: ast.AST, orig_root: ast.AST, orig_node: ast.AST) -> ast.AST:
    for a, b in zip(ast.walk(orig_root), ast.walk(copy_root)):
        if a is orig_node:
            return b
    raise NotInlinable("twin")


# --------------------------------------------------------------------------------------------- nested definitions
def hoist_nested_defs(fn: ast.AST) -> bool:
    """Nested function definitions are moved to the top of the enclosing function (a def only binds a name; its free
    variables are looked up when it is called), and a nested `def g(a): return E` that is only ever read becomes a lambda
    at its uses - so that a local closure, a lambda and a helper moved out of the function all meet in one form."""
    found: List[Tuple[list, ast.AST]] = []

    def scan(block: list) -> None:
        for st in block:
            if isinstance(st, FuncNode):
                found.append((block, st))
                continue
            if isinstance(st, ast.ClassDef):
                continue
            for f in ("body", "orelse", "finalbody"):
                sub = getattr(st, f, None)
                if isinstance(sub, list):
                    scan(sub)
            for h in getattr(st, "handlers", []) or []:
                scan(h.body)

    scan(fn.body)  # type: ignore[attr-defined]
    if not found:
        return False
    changed = False
    keep: List[ast.AST] = []
    for block, d in found:
        name = d.name
        loads, stores = count_name([s for s in fn.body], name)  # type: ignore[attr-defined]
        body = [s for s in d.body if not isinstance(s, ast.Pass)]
        single = len(body) == 1 and isinstance(body[0], ast.Return) and body[0].value is not None
        recursive = any(isinstance(n, ast.Name) and n.id == name for n in ast.walk(ast.Module(body=d.body, type_ignores=[])))
        a = d.args
        plain_args = not (a.vararg or a.kwarg or a.kwonlyargs or a.posonlyargs or a.defaults)
        if single and not recursive and stores == 1 and not d.decorator_list and plain_args and not isinstance(d, ast.AsyncFunctionDef):
            block.remove(d)
            lam = ast.Lambda(args=d.args, body=body[0].value)
            for n in ast.walk(fn):
                for f, v in ast.iter_fields(n):
                    if isinstance(v, ast.Name) and v.id == name and isinstance(v.ctx, ast.Load):
                        setattr(n, f, copy.deepcopy(lam))
                    elif isinstance(v, list):
                        for i, x in enumerate(v):
                            if isinstance(x, ast.Name) and x.id == name and isinstance(x.ctx, ast.Load):
                                v[i] = copy.deepcopy(lam)
            changed = True
            continue
        keep.append(d)
        if block is not fn.body or fn.body.index(d) != len(keep) - 1:  # type: ignore[attr-defined]
            changed = True
        block.remove(d)
    fn.body[0:0] = keep  # type: ignore[attr-defined]
    return changed


def separate_scopes(fn: ast.AST) -> None:
    """The parameters and locals of a nested function are its own: give them names no enclosing scope uses, so that a
    nested function that happens to re-use (or stops re-using) a name of its parent compares equal."""
    k = 0
    for lam in ast.walk(fn):
        if isinstance(lam, ast.Lambda):
            k += 1
            ren_l = {x.arg: f"{x.arg}~L{k}" for x in lam.args.posonlyargs + lam.args.args + lam.args.kwonlyargs if "~" not in x.arg}
            for x in lam.args.posonlyargs + lam.args.args + lam.args.kwonlyargs:
                if x.arg in ren_l:
                    x.arg = ren_l[x.arg]
            for n in ast.walk(lam.body):
                if isinstance(n, ast.Name) and n.id in ren_l:
                    n.id = ren_l[n.id]
    for g in ast.walk(fn):
        if not isinstance(g, FuncNode) or g is fn:
            continue
        k += 1
        own: Set[str] = set()
        a = g.args
        for x in a.posonlyargs + a.args + a.kwonlyargs:
            own.add(x.arg)
        if a.vararg:
            own.add(a.vararg.arg)
        if a.kwarg:
            own.add(a.kwarg.arg)
        declared: Set[str] = set()
        for n in ast.walk(g):
            if isinstance(n, (ast.Global, ast.Nonlocal)):
                declared |= set(n.names)
        for st in g.body:
            for n in ast.walk(st):
                if isinstance(n, ast.Name) and isinstance(n.ctx, ast.Store):
                    own.add(n.id)
        own -= declared
        own = {n for n in own if "~" not in n}
        if not own:
            continue
        ren = {n: f"{n}~{k}" for n in own}
        for x in a.posonlyargs + a.args + a.kwonlyargs + ([a.vararg] if a.vararg else []) + ([a.kwarg] if a.kwarg else []):
            if x.arg in ren:
                x.arg = ren[x.arg]
        for st in g.body:
            for n in ast.walk(st):
                if isinstance(n, ast.Name) and n.id in ren:
                    n.id = ren[n.id]
                elif isinstance(n, ast.arg) and n.arg in ren and False:
                    pass


# --------------------------------------------------------------------------------------------- alpha renaming
def alpha_rename(fn: ast.AST) -> None:
    a = fn.args  # type: ignore[attr-defined]
    # positional parameters are named by position (a renamed parameter of a function that is called positionally is not a
    # change of behaviour; keyword-only parameters keep their names, they are part of every call)
    pmap = {x.arg: f"p{i}" for i, x in enumerate(a.posonlyargs + a.args)}
    if len(set(pmap.values())) == len(pmap) and not any(isinstance(n, (ast.Global, ast.Nonlocal)) for n in ast.walk(fn)):
        taken = {n.id for n in ast.walk(fn) if isinstance(n, ast.Name)} | {x.arg for x in a.kwonlyargs}
        if not (set(pmap.values()) & (taken - set(pmap))):
            for x in a.posonlyargs + a.args:
                x.arg = pmap[x.arg]
            for n in ast.walk(fn):
                if isinstance(n, ast.Name) and n.id in pmap:
                    n.id = pmap[n.id]
    params = {x.arg for x in a.posonlyargs + a.args + a.kwonlyargs}
    if a.vararg:
        params.add(a.vararg.arg)
    if a.kwarg:
        params.add(a.kwarg.arg)
    stored: Set[str] = set()
    banned: Set[str] = set()
    for n in ast.walk(fn):
        if isinstance(n, ast.Name) and isinstance(n.ctx, ast.Store):
            stored.add(n.id)
        elif isinstance(n, FuncNode) and n is not fn:
            stored.add(n.name)
            for x in n.args.posonlyargs + n.args.args + n.args.kwonlyargs:
                stored.add(x.arg)
        elif isinstance(n, ast.Lambda):
            for x in n.args.args:
                stored.add(x.arg)
        elif isinstance(n, ast.ExceptHandler) and n.name:
            stored.add(n.name)
        elif isinstance(n, (ast.Global, ast.Nonlocal)):
            banned |= set(n.names)
    names = stored - params - banned
    loads = {n.id for n in ast.walk(fn) if isinstance(n, ast.Name) and isinstance(n.ctx, ast.Load)}
    order: Dict[str, str] = {}

    def see(name: str) -> None:
        if name in names and name not in order:
            order[name] = "_" if name not in loads else f"v{len([v for v in order.values() if v != '_'])}"

    def visit(n: ast.AST) -> None:
        # value before targets: the order of first *binding* follows evaluation
        if isinstance(n, ast.Assign):
            visit(n.value)
            for t in n.targets:
                visit(t)
            return
        if isinstance(n, ast.Name):
            see(n.id)
        elif isinstance(n, FuncNode) and n is not fn:
            see(n.name)
        elif isinstance(n, ast.arg):
            see(n.arg)
        elif isinstance(n, ast.ExceptHandler) and n.name:
            see(n.name)
        for ch in ast.iter_child_nodes(n):
            visit(ch)

    for st in fn.body:  # type: ignore[attr-defined]
        visit(st)
    for n in ast.walk(fn):
        if isinstance(n, ast.Name) and n.id in order:
            n.id = order[n.id]
        elif isinstance(n, FuncNode) and n is not fn and n.name in order:
            n.name = order[n.name]
            for x in n.args.posonlyargs + n.args.args + n.args.kwonlyargs:
                if x.arg in order:
                    x.arg = order[x.arg]
        elif isinstance(n, ast.Lambda):
            for x in n.args.args:
                if x.arg in order:
                    x.arg = order[x.arg]
        elif isinstance(n, ast.ExceptHandler) and n.name in order:
            n.name = order[n.name]


def _param_names(fn: ast.AST) -> Set[str]:
    a = fn.args  # type: ignore[attr-defined]
    return {x.arg for x in a.posonlyargs + a.args + a.kwonlyargs}


def _list_locals(fn: ast.AST) -> Set[str]:
    """Locals of fn whose every binding is a list display / list comprehension / list(...) and that no nested scope touches."""
    ok: Dict[str, bool] = {}
    params = _param_names(fn)
    for n in ast.walk(fn):
        if isinstance(n, ast.Assign):
            for t in n.targets:
                if isinstance(t, ast.Name):
                    v = n.value
                    good = isinstance(v, (ast.List, ast.ListComp)) or (isinstance(v, ast.Call) and isinstance(v.func, ast.Name) and v.func.id == "list")
                    ok[t.id] = ok.get(t.id, True) and good
                else:
                    for x in ast.walk(t):
                        if isinstance(x, ast.Name) and isinstance(x.ctx, ast.Store):
                            ok[x.id] = False
        elif isinstance(n, (ast.For, ast.AsyncFor, ast.With, ast.AsyncWith, ast.comprehension, ast.NamedExpr, ast.AnnAssign)):
            tgt = getattr(n, "target", None)
            for x in ast.walk(tgt) if tgt is not None else []:
                if isinstance(x, ast.Name):
                    ok[x.id] = False
            for it in getattr(n, "items", []) or []:
                if it.optional_vars is not None:
                    for x in ast.walk(it.optional_vars):
                        if isinstance(x, ast.Name):
                            ok[x.id] = False
        elif isinstance(n, ast.ExceptHandler) and n.name:
            ok[n.name] = False
        elif isinstance(n, (ast.Global, ast.Nonlocal)):
            for x in n.names:
                ok[x] = False
    return {k for k, v in ok.items() if v and k not in params}


# --------------------------------------------------------------------------------------------- the normal form
def _blocks_of(fn: ast.AST) -> Iterable[list]:
    """Every statement list of fn (nested functions excluded)."""
    stack = [fn]
    while stack:
        n = stack.pop()
        for fld in ("body", "orelse", "finalbody"):
            b = getattr(n, fld, None)
            if isinstance(b, list) and b and isinstance(b[0], ast.stmt):
                yield b
                for st in b:
                    if not isinstance(st, FuncNode) and not isinstance(st, ast.ClassDef):
                        stack.append(st)
        for h in getattr(n, "handlers", []) or []:
            stack.append(h)


def find_idiom(fn: ast.AST) -> bool:
    """if A in S: v = S.index(A); REST  else: E      ->      v = S.find(A);  if v == -1: E  else: REST
    A a str/bytes constant (so S is a str/bytes: `find` exists and agrees with `in`/`index`), S a plain path that
    evaluating `A in S` cannot change, v a local stored nowhere else and read only in REST.
    Also  v = S.find(A); if v >= 0 / v > -1 / v < 0   ->   v != -1 / v == -1   (find returns -1 or an index)."""
    changed = False
    for block in _blocks_of(fn):
        for i, st in enumerate(block):
            if isinstance(st, ast.Assign) and len(st.targets) == 1 and isinstance(st.targets[0], ast.Name) and isinstance(st.value, ast.Call) and isinstance(st.value.func, ast.Attribute) and st.value.func.attr in ("find", "rfind") and i + 1 < len(block) and isinstance(block[i + 1], ast.If):
                v = st.targets[0].id
                nx = block[i + 1]

                def fix(t: ast.expr) -> ast.expr:
                    if isinstance(t, ast.BoolOp):
                        t.values = [fix(x) for x in t.values]
                        return t
                    if isinstance(t, ast.Compare) and len(t.ops) == 1:
                        l, op, r = t.left, t.ops[0], t.comparators[0]
                        isv = lambda e: isinstance(e, ast.Name) and e.id == v  # noqa: E731
                        mk = lambda o: ast.Compare(left=ast.Name(id=v, ctx=ast.Load()), ops=[o], comparators=[ast.UnaryOp(op=ast.USub(), operand=ast.Constant(value=1))])  # noqa: E731
                        if (isv(r) and _num(l) == 0 and isinstance(op, ast.LtE)) or (isv(l) and _num(r) == 0 and isinstance(op, ast.GtE)) or (isv(r) and _num(l) == -1 and isinstance(op, ast.Lt)) or (isv(l) and _num(r) == -1 and isinstance(op, ast.Gt)):
                            return mk(ast.NotEq())
                        if (isv(l) and _num(r) == 0 and isinstance(op, ast.Lt)) or (isv(r) and _num(l) == 0 and isinstance(op, ast.Gt)) or (isv(l) and _num(r) == -1 and isinstance(op, ast.LtE)) or (isv(r) and _num(l) == -1 and isinstance(op, ast.GtE)):
                            return mk(ast.Eq())
                    return t

                before = dump(nx.test)
                nx.test = fix(nx.test)
                changed |= dump(nx.test) != before
            if not (isinstance(st, ast.If) and st.body and isinstance(st.test, ast.Compare) and len(st.test.ops) == 1 and isinstance(st.test.ops[0], ast.In)):
                continue
            A, S = st.test.left, st.test.comparators[0]
            if not (isinstance(A, ast.Constant) and isinstance(A.value, (str, bytes)) and _path(S) is not None):
                continue
            a = st.body[0]
            if not (isinstance(a, ast.Assign) and len(a.targets) == 1 and isinstance(a.targets[0], ast.Name) and isinstance(a.value, ast.Call) and isinstance(a.value.func, ast.Attribute) and a.value.func.attr == "index" and len(a.value.args) == 1 and not a.value.keywords and dump(a.value.func.value) == dump(S) and dump(a.value.args[0]) == dump(A)):
                continue
            v = a.targets[0].id
            loads, stores = count_name(fn, v)
            rl, rs = count_name(st.body[1:], v)
            if stores != 1 or loads != rl or rs != 0 or v in names_in(S):
                continue
            new_assign = ast.Assign(targets=[ast.Name(id=v, ctx=ast.Store())], value=ast.Call(func=ast.Attribute(value=copy.deepcopy(S), attr="find", ctx=ast.Load()), args=[copy.deepcopy(A)], keywords=[]))
            test = ast.Compare(left=ast.Name(id=v, ctx=ast.Load()), ops=[ast.Eq()], comparators=[ast.UnaryOp(op=ast.USub(), operand=ast.Constant(value=1))])
            rest = st.body[1:] or [ast.Pass()]
            new_if = ast.If(test=test, body=st.orelse or [ast.Pass()], orelse=rest)
            block[i : i + 1] = [new_assign, new_if]
            return True
    return changed


def normal_form(fn: ast.AST, ctx: Ctx) -> str:
    g = copy.deepcopy(fn)
    _Strip().visit(g)
    separate_scopes(g)
    Inliner(ctx, g).run()
    separate_scopes(g)  # lambdas / nested functions that came in with inlined helpers
    norm = Normaliser(bound_names=_param_names(g), list_locals=_list_locals(g))
    prev = None
    for _ in range(8):
        g = _Expr().visit(g)
        hoist_nested_defs(g)
        g.body = strip_tail(norm.block(g.body), ast.Return)
        for sub in ast.walk(g):
            if isinstance(sub, FuncNode):
                split_webs(sub)
        find_idiom(g)
        forward_substitute(g)
        coalesce_copies(g)
        _StripMsg().visit(g)
        cur = dump(g.body)
        if cur == prev:
            break
        prev = cur
    g = _Expr().visit(g)
    alpha_rename(g)
    a = g.args
    sig = (
        [x.arg for x in a.posonlyargs + a.args],
        [x.arg for x in a.kwonlyargs],
        a.vararg.arg if a.vararg else None,
        a.kwarg.arg if a.kwarg else None,
        [dump(d) for d in a.defaults],
        [dump(d) if d is not None else None for d in a.kw_defaults],
        sorted(_decorators(g)),
    )
    return repr(sig) + dump(g.body)


# --------------------------------------------------------------------------------------------- healing a module
def reference_dir() -> str:
    return os.path.join(os.path.dirname(os.path.dirname(os.path.abspath(__file__))), "spec", "reference_src")


_REF_CACHE: Dict[str, Optional[Tuple[str, ast.Module]]] = {}


def reference_module(rel: str) -> Optional[Tuple[str, ast.Module]]:
    if rel not in _REF_CACHE:
        p = os.path.join(reference_dir(), rel)
        if os.path.exists(p):
            src = open(p, encoding="utf-8").read()
            _REF_CACHE[rel] = (src, ast.parse(src))
        else:
            _REF_CACHE[rel] = None
    return _REF_CACHE[rel]


def _referenced_names(tree: ast.AST, skip: Iterable[ast.AST] = ()) -> Set[str]:
    skip_ids = {id(s) for s in skip}
    out: Set[str] = set()
    stack = [tree]
    while stack:
        n = stack.pop()
        if id(n) in skip_ids:
            continue
        if isinstance(n, ast.Name):
            out.add(n.id)
        elif isinstance(n, ast.Attribute):
            out.add(n.attr)
        elif isinstance(n, ast.Constant) and isinstance(n.value, str) and n.value.isidentifier():
            out.add(n.value)
        stack.extend(ast.iter_child_nodes(n))
    return out


def _rename_everywhere(tree: ast.AST, mapping: Dict[str, str]) -> None:
    for n in ast.walk(tree):
        if isinstance(n, FuncNode) and n.name in mapping:
            n.name = mapping[n.name]
        elif isinstance(n, ast.Attribute) and n.attr in mapping:
            n.attr = mapping[n.attr]
        elif isinstance(n, ast.Name) and n.id in mapping:
            n.id = mapping[n.id]
        elif isinstance(n, ast.Constant) and isinstance(n.value, str) and n.value in mapping:
            n.value = mapping[n.value]
        elif isinstance(n, ast.alias) and n.name in mapping:
            n.name = mapping[n.name]
        elif isinstance(n, ast.keyword) and n.arg in mapping:
            pass


# literal constants that are new in some other changed module of the package (set by Model before healing): a name imported from
# there is replaced by its value like a local new constant
EXTRA_CONSTS: Dict[str, ast.expr] = {}
# top-level functions that are new in some other changed module (a helper moved out of this module, or shared between modules)
EXTRA_HELPERS: Dict[str, ast.AST] = {}

_REF_IDENTIFIERS: Optional[Set[str]] = None


def reference_identifiers() -> Set[str]:
    """Every identifier that occurs anywhere in the reviewed sources."""
    global _REF_IDENTIFIERS
    if _REF_IDENTIFIERS is None:
        import re

        ids: Set[str] = set()
        for dp, _, fns in os.walk(reference_dir()):
            for fn in fns:
                if fn.endswith(".py"):
                    ids |= set(re.findall(r"[A-Za-z_][A-Za-z0-9_]*", open(os.path.join(dp, fn), encoding="utf-8").read()))
        _REF_IDENTIFIERS = ids
    return _REF_IDENTIFIERS


def detect_renames(rel: str, src: str, tree: ast.Module) -> Dict[str, str]:
    """{new name: reviewed name} for functions/methods that were merely renamed: a definition that exists only in the
    current tree whose normal form, after putting the reviewed name back, equals the normal form of a definition (same
    class or module level) that exists only in the reviewed tree.  The new name must not occur anywhere in the reviewed
    sources (so that putting the old name back everywhere cannot capture something else)."""
    ref = reference_module(rel)
    if ref is None or ref[0] == src:
        return {}
    total: Dict[str, str] = {}
    work = tree
    for _ in range(4):
        found = _detect_renames_once(work, ref[1])
        found = {k: v for k, v in found.items() if k not in total}
        if not found:
            break
        total.update(found)
        work = copy.deepcopy(work)
        _rename_everywhere(work, found)
    return total


def _detect_renames_once(tree: ast.Module, ref_tree: ast.Module) -> Dict[str, str]:
    ref = (None, ref_tree)
    cf, rf = function_table(tree), function_table(ref[1])
    new_keys = [k for k in cf if k not in rf]
    gone_keys = [k for k in rf if k not in cf]
    out: Dict[str, str] = {}
    ids = reference_identifiers()
    cc, rc = const_table(tree), const_table(ref[1])
    # private attributes (self._x1 -> self._last_x1): a new attribute name that occurs nowhere in the reviewed sources stands
    # for an attribute of the reviewed module that no longer occurs, if putting the old name back makes every function that
    # mentions it equal to its reviewed form
    cur_attrs = {n.attr for n in ast.walk(tree) if isinstance(n, ast.Attribute)}
    ref_attrs = {n.attr for n in ast.walk(ref[1]) if isinstance(n, ast.Attribute)}
    def self_stored(t: ast.AST) -> Set[str]:
        return {n.attr for n in ast.walk(t) if isinstance(n, ast.Attribute) and isinstance(n.ctx, ast.Store) and isinstance(n.value, ast.Name) and n.value.id == "self"}

    def only_on_self(t: ast.AST, a: str) -> bool:
        return all(isinstance(n.value, ast.Name) and n.value.id == "self" for n in ast.walk(t) if isinstance(n, ast.Attribute) and n.attr == a)

    # only attributes this package defines itself (stored on self), never attributes of foreign objects (os.path.abspath ...)
    cs, rs = self_stored(tree), self_stored(ref[1])
    new_attrs = sorted(a for a in cur_attrs - ref_attrs if a not in ids and a in cs and only_on_self(tree, a))
    gone_attrs = sorted(b for b in ref_attrs - cur_attrs if b in rs and only_on_self(ref[1], b))
    if new_attrs and gone_attrs and len(new_attrs) <= 4 and len(gone_attrs) <= 6:
        cur_c = {k: v for k, v in cc.items() if k not in rc}
        ref_c = {k: v for k, v in rc.items() if k not in cc}
        for a in new_attrs:
            users = [k for k in cf if k in rf and any(isinstance(n, ast.Attribute) and n.attr == a for n in ast.walk(cf[k][0]))]
            if not users:
                continue
            for b in gone_attrs:
                if b in out.values():
                    continue
                ok = True
                for k in users:
                    cand = copy.deepcopy(cf[k][0])
                    for n in ast.walk(cand):
                        if isinstance(n, ast.Attribute) and n.attr == a:
                            n.attr = b
                    try:
                        if normal_form(cand, Ctx({}, cur_c, cf[k][2], set())) != normal_form(rf[k][0], Ctx({}, ref_c, rf[k][2], set())):
                            ok = False
                            break
                    except Exception:
                        ok = False
                        break
                if ok:
                    out[a] = b
                    break
    if not new_keys or not gone_keys:
        return out
    cur_consts = {k: v for k, v in cc.items() if k not in rc}
    ref_consts = {k: v for k, v in rc.items() if k not in cc}
    _add_interned(tree, ref[1], cur_consts, ref_consts)
    for nk in new_keys:
        nname = nk.rsplit(".", 1)[-1]
        if "#" in nname or nname in ids:
            continue
        owner = nk.rsplit(".", 1)[0] if "." in nk else ""
        for gk in gone_keys:
            gowner = gk.rsplit(".", 1)[0] if "." in gk else ""
            gname = gk.rsplit(".", 1)[-1]
            if gowner != owner or "#" in gname or gname in out.values():
                continue
            cand = copy.deepcopy(cf[nk][0])
            _rename_everywhere(cand, {nname: gname})
            try:
                a = normal_form(cand, Ctx({}, cur_consts, cf[nk][2], set()))
                b = normal_form(rf[gk][0], Ctx({}, ref_consts, rf[gk][2], set()))
            except Exception:
                continue
            if a == b:
                out[nname] = gname
                break
    return out


def heal_module(rel: str, src: str, tree: ast.Module) -> Tuple[ast.Module, List[str]]:
    """Returns (tree to analyse, log).  The returned tree is `tree` itself when nothing was healed."""
    ref = reference_module(rel)
    if ref is None or ref[0] == src:
        return tree, []
    ref_tree = ref[1]
    if dump(ref_tree) == dump(tree):
        return tree, []
    cur_tree = copy.deepcopy(tree)
    ref_tree = copy.deepcopy(ref_tree)
    cf, rf = function_table(cur_tree), function_table(ref_tree)
    cc, rc = const_table(cur_tree), const_table(ref_tree)
    log: List[str] = []
    new_keys = [k for k in cf if k not in rf]
    gone_keys = [k for k in rf if k not in cf]
    cur_helpers = {k: cf[k][0] for k in new_keys}
    ref_helpers = {k: rf[k][0] for k in gone_keys}
    cur_consts = {k: v for k, v in cc.items() if k not in rc}
    for k_, v_ in EXTRA_CONSTS.items():
        cur_consts.setdefault(k_, v_)
    ref_consts = {k: v for k, v in rc.items() if k not in cc}
    _add_interned(cur_tree, ref_tree, cur_consts, ref_consts)
    note_class_bases(cur_tree)
    mod_names_c = set(cf)
    mod_names_r = set(rf)
    healed: List[str] = []
    for key in cf:
        if key not in rf:
            continue
        cnode, cbody, ccls = cf[key]
        rnode, _, rcls = rf[key]
        if dump(cnode) == dump(rnode):
            continue
        try:
            cctx = Ctx(cur_helpers, cur_consts, ccls, mod_names_c)
            cctx.use_extra = True
            ncur = normal_form(cnode, cctx)
            nref = normal_form(rnode, Ctx(ref_helpers, ref_consts, rcls, mod_names_r))
        except (NotInlinable, RecursionError, AttributeError, TypeError, ValueError, IndexError, KeyError) as e:  # pragma: no cover - a rewrite that cannot be applied is "not proven"
            log.append(f"{rel}:{key}: normal form failed ({type(e).__name__}: {e})")
            continue
        if ncur == nref:
            new = copy.deepcopy(rnode)
            ast.increment_lineno(new, cnode.lineno - rnode.lineno)
            idx = next(i for i, s in enumerate(cbody) if s is cnode)
            cbody[idx] = new
            healed.append(key)
    # functions that could not be proven equivalent but call helpers the reviewed tree does not have: the helpers are
    # inlined (a semantics-preserving rewrite on its own), so that the rules see the statements in their context
    inlined: List[str] = []
    if cur_helpers:
        for key in list(cf):
            if key in healed or key in cur_helpers:
                continue
            cnode, cbody, ccls = cf[key]
            names = _referenced_names(cnode)
            if not any(k.split(".")[-1] in names for k in cur_helpers):
                continue
            g = copy.deepcopy(cnode)
            try:
                if not Inliner(Ctx(cur_helpers, {}, ccls, mod_names_c), g).run():
                    continue
                forward_substitute(g)
                coalesce_copies(g)
            except (NotInlinable, RecursionError, AttributeError, TypeError, ValueError, IndexError, KeyError):
                continue
            for n in ast.walk(g):
                if isinstance(n, ast.Name) and "$" in n.id:
                    n.id = n.id.replace("$", "__inl")
                elif isinstance(n, FuncNode) and "$" in n.name:
                    n.name = n.name.replace("$", "__inl")
            ast.copy_location(g, cnode)
            for n in ast.walk(g):
                if isinstance(n, (ast.stmt, ast.expr)) and not hasattr(n, "lineno"):
                    n.lineno = cnode.lineno  # type: ignore[attr-defined]
                    n.col_offset = 0  # type: ignore[attr-defined]
                    n.end_lineno = cnode.lineno  # type: ignore[attr-defined]
                    n.end_col_offset = 0  # type: ignore[attr-defined]
            idx = next(i for i, s_ in enumerate(cbody) if s_ is cnode)
            cbody[idx] = g
            inlined.append(key)
    if not healed and not inlined:
        return tree, log
    # helpers that exist only on the current side and are no longer referenced by anything: drop them;
    # helpers of the reviewed tree that the healed functions call again: bring them back.
    cf2 = function_table(cur_tree)
    for k in new_keys:
        if k not in cf2:
            continue
        node, body, _ = cf2[k]
        name = k.split(".")[-1].split("#")[0]
        if name not in _referenced_names(cur_tree, skip=[node]):
            body.remove(node)
            log.append(f"{rel}:{k}: helper of the refactoring, inlined into its callers for the comparison and unused afterwards")
    used = _referenced_names(cur_tree)
    for k in gone_keys:
        name = k.split(".")[-1].split("#")[0]
        if name in used:
            node, _, cls = rf[k]
            target = _body_of(cur_tree, cls)
            if target is not None:
                target.append(copy.deepcopy(node))
                log.append(f"{rel}:{k}: helper of the reviewed tree restored next to the healed callers")
    for k, v in ref_consts.items():
        name = k.split(".")[-1]
        if name in used and "." not in k:
            cur_tree.body.insert(_after_imports(cur_tree), ast.Assign(targets=[ast.Name(id=name, ctx=ast.Store())], value=copy.deepcopy(v), lineno=1, col_offset=0))
    ast.fix_missing_locations(cur_tree)
    for k in healed:
        log.append(f"{rel}:{k}: proven equivalent to its reviewed form (normal forms equal); analysed in the reviewed form")
    for k in inlined:
        log.append(f"{rel}:{k}: calls helpers that the reviewed tree does not have; analysed with those helpers inlined")
    return cur_tree, log


def _after_imports(tree: ast.Module) -> int:
    i = 0
    for i, st in enumerate(tree.body):
        if not isinstance(st, (ast.Import, ast.ImportFrom)) and not (isinstance(st, ast.Expr) and isinstance(st.value, ast.Constant)):
            return i
    return i


def _body_of(tree: ast.Module, cls: Optional[str]) -> Optional[list]:
    if cls is None:
        return tree.body
    body = tree.body
    for part in cls.split("."):
        nxt = None
        for st in body:
            if isinstance(st, ast.ClassDef) and st.name == part:
                nxt = st.body
                break
        if nxt is None:
            return None
        body = nxt
    return body


# --------------------------------------------------------------------------------------------- def-use webs
class _UF:
    def __init__(self) -> None:
        self.p: Dict[int, int] = {}

    def find(self, x: int) -> int:
        self.p.setdefault(x, x)
        while self.p[x] != x:
            self.p[x] = self.p[self.p[x]]
            x = self.p[x]
        return x

    def union(self, a: int, b: int) -> None:
        ra, rb = self.find(a), self.find(b)
        if ra != rb:
            self.p[max(ra, rb)] = min(ra, rb)


def split_webs(fn: ast.AST) -> bool:
    """Give every def-use web of a local its own name (a variable re-used for an unrelated value becomes two variables;
    a parameter that is re-assigned becomes a parameter and a local).  Reaching definitions are computed over the
    structured statements; every approximation joins more (fewer splits), never less."""
    a = fn.args  # type: ignore[attr-defined]
    params = [x.arg for x in a.posonlyargs + a.args + a.kwonlyargs] + ([a.vararg.arg] if a.vararg else []) + ([a.kwarg.arg] if a.kwarg else [])
    excluded: Set[str] = set()
    for n in ast.walk(fn):
        if isinstance(n, (ast.Global, ast.Nonlocal)):
            excluded |= set(n.names)
        elif isinstance(n, (ast.ListComp, ast.SetComp, ast.DictComp, ast.GeneratorExp)):
            for g in n.generators:
                excluded |= {x.id for x in ast.walk(g.target) if isinstance(x, ast.Name)}
        elif isinstance(n, ast.NamedExpr):
            excluded |= names_in(n.target)
        elif isinstance(n, ast.Delete):
            for t in n.targets:
                excluded |= names_in(t)
        elif isinstance(n, (ast.Lambda,) + FuncNode) and n is not fn:
            # names read or bound inside nested scopes are left alone
            for x in ast.walk(n):
                if isinstance(x, ast.Name):
                    excluded.add(x.id)
                elif isinstance(x, ast.arg):
                    excluded.add(x.arg)
            if isinstance(n, FuncNode):
                excluded.add(n.name)
        elif isinstance(n, ast.ClassDef):
            excluded.add(n.name)
    uf = _UF()
    def_name: Dict[int, str] = {}
    def_nodes: Dict[int, List[Tuple[ast.AST, str]]] = {}  # def id -> [(node, field)] to rename
    use_nodes: List[Tuple[ast.Name, int]] = []
    counter = [0]
    Env = Dict[str, frozenset]

    memo: Dict[Tuple[int, str], int] = {}

    def new_def(name: str, node: Optional[ast.AST], field: str = "id") -> int:
        # one definition per store site, however often the enclosing loop body is re-analysed
        if node is not None and (id(node), field) in memo:
            return memo[(id(node), field)]
        d = _new_def(name, node, field)
        if node is not None:
            memo[(id(node), field)] = d
        return d

    def _new_def(name: str, node: Optional[ast.AST], field: str = "id") -> int:
        counter[0] += 1
        d = counter[0]
        def_name[d] = name
        def_nodes[d] = [(node, field)] if node is not None else []
        uf.find(d)
        return d

    def join(x: Optional[Env], y: Optional[Env]) -> Optional[Env]:
        if x is None:
            return dict(y) if y is not None else None
        if y is None:
            return dict(x)
        out = dict(x)
        for k, v in y.items():
            out[k] = out.get(k, frozenset()) | v
        return out

    def use(n: ast.Name, env: Env) -> None:
        if n.id in excluded:
            return
        ds = env.get(n.id)
        if not ds:
            return
        ds = sorted(ds)
        for d in ds[1:]:
            uf.union(ds[0], d)
        use_nodes.append((n, ds[0]))

    def expr(e: Optional[ast.AST], env: Env) -> None:
        if e is None:
            return
        for n in ast.walk(e):
            if isinstance(n, ast.Name) and isinstance(n.ctx, ast.Load):
                use(n, env)

    def store(t: ast.AST, env: Env) -> None:
        if isinstance(t, ast.Name):
            if t.id not in excluded:
                env[t.id] = frozenset([new_def(t.id, t)])
        elif isinstance(t, (ast.Tuple, ast.List)):
            for x in t.elts:
                store(x, env)
        elif isinstance(t, ast.Starred):
            store(t.value, env)
        else:
            expr(t, env)

    def defs_in(stmts: list) -> Dict[str, Set[int]]:
        return {}

    loops: List[Dict[str, list]] = []

    def block(stmts: list, env: Optional[Env]) -> Optional[Env]:
        for st in stmts:
            if env is None:
                # unreachable code: still number its definitions so that renaming stays consistent
                env = {}
            env = stmt(st, env)
        return env

    def loop_body(body: list, env_before: Env, head_effect) -> Tuple[Env, Optional[Env], list]:
        """Returns (env at loop head, env after body fall-through joined, break envs)."""
        head = dict(env_before)
        brks: list = []
        for _ in range(3):
            loops.append({"break": [], "continue": []})
            e = dict(head)
            head_effect(e)
            out = block(body, e)
            ctx = loops.pop()
            brks = ctx["break"]
            nh = join(env_before, out)
            for c in ctx["continue"]:
                nh = join(nh, c)
            assert nh is not None
            if nh == head:
                break
            head = nh
        return head, None, brks

    def stmt(st: ast.stmt, env: Env) -> Optional[Env]:
        if isinstance(st, ast.Assign):
            expr(st.value, env)
            for t in st.targets:
                store(t, env)
            return env
        if isinstance(st, ast.AugAssign):
            expr(st.value, env)
            if isinstance(st.target, ast.Name):
                if st.target.id not in excluded:
                    old = sorted(env.get(st.target.id, frozenset()))
                    d = new_def(st.target.id, st.target)
                    for o in old:
                        uf.union(o, d)
                    env[st.target.id] = frozenset([d])
            else:
                expr(st.target, env)
            return env
        if isinstance(st, ast.AnnAssign):
            expr(st.value, env)
            if st.value is not None:
                store(st.target, env)
            return env
        if isinstance(st, (ast.Expr,)):
            expr(st.value, env)
            return env
        if isinstance(st, ast.Return):
            expr(st.value, env)
            return None
        if isinstance(st, ast.Raise):
            expr(st.exc, env)
            expr(st.cause, env)
            return None
        if isinstance(st, ast.Assert):
            expr(st.test, env)
            expr(st.msg, env)
            return env
        if isinstance(st, ast.Break):
            if loops:
                loops[-1]["break"].append(dict(env))
            return None
        if isinstance(st, ast.Continue):
            if loops:
                loops[-1]["continue"].append(dict(env))
            return None
        if isinstance(st, ast.If):
            expr(st.test, env)
            a_ = block(st.body, dict(env))
            b_ = block(st.orelse, dict(env))
            return join(a_, b_) if (a_ is not None or b_ is not None) else None
        if isinstance(st, (ast.For, ast.AsyncFor)):
            expr(st.iter, env)
            head, _, brks = loop_body(st.body, env, lambda e: store(st.target, e))
            out: Optional[Env] = block(st.orelse, dict(head)) if st.orelse else dict(head)
            for b in brks:
                out = join(out, b)
            return out
        if isinstance(st, ast.While):
            head, _, brks = loop_body(st.body, env, lambda e: expr(st.test, e))
            expr(st.test, head)
            infinite = isinstance(st.test, ast.Constant) and bool(st.test.value)
            out = None if infinite else (block(st.orelse, dict(head)) if st.orelse else dict(head))
            for b in brks:
                out = join(out, b)
            return out
        if isinstance(st, ast.Try):
            before = dict(env)
            first_def = counter[0]
            out = block(st.body, dict(env))
            # an exception may leave the body after any prefix of it: every definition made inside may or may not have happened
            hin: Env = dict(before)
            for d in range(first_def + 1, counter[0] + 1):
                nm = def_name[d]
                hin[nm] = hin.get(nm, frozenset()) | frozenset([d])
            if st.orelse:
                out = block(st.orelse, out) if out is not None else None
            outs = [out]
            for h in st.handlers:
                he = dict(hin)
                expr(h.type, he)
                if h.name and h.name not in excluded:
                    he[h.name] = frozenset([new_def(h.name, h, "name")])
                outs.append(block(h.body, he))
            res: Optional[Env] = None
            for o in outs:
                res = join(res, o)
            if st.finalbody:
                fin = join(res, hin)
                res2 = block(st.finalbody, fin)
                return res2 if res is not None else None
            return res
        if isinstance(st, (ast.With, ast.AsyncWith)):
            for it in st.items:
                expr(it.context_expr, env)
                if it.optional_vars is not None:
                    store(it.optional_vars, env)
            return block(st.body, env)
        if isinstance(st, FuncNode + (ast.ClassDef,)):
            return env
        for ch in ast.iter_child_nodes(st):
            if isinstance(ch, ast.expr):
                expr(ch, env)
        return env

    env0: Env = {}
    for p in params:
        if p not in excluded:
            env0[p] = frozenset([new_def(p, None)])
    block(fn.body, env0)  # type: ignore[attr-defined]
    # webs per name
    by_name: Dict[str, Dict[int, List[int]]] = {}
    for d, nm in def_name.items():
        by_name.setdefault(nm, {}).setdefault(uf.find(d), []).append(d)
    changed = False
    rename: Dict[int, str] = {}
    for nm, webs in by_name.items():
        if len(webs) < 2:
            continue
        k = 0
        for root in sorted(webs):
            is_param_web = any(not def_nodes[d] for d in webs[root])
            if is_param_web:
                continue
            k += 1
            rename[root] = f"{nm}@{k}"
    if not rename:
        return False
    for d, nodes in def_nodes.items():
        r = uf.find(d)
        if r in rename:
            for node, field in nodes:
                setattr(node, field, rename[r])
                changed = True
    for n, d in use_nodes:
        r = uf.find(d)
        if r in rename:
            n.id = rename[r]
    return changed


def coalesce_copies(fn: ast.AST) -> bool:
    """b = ...; ...; a = b   (b never mentioned afterwards, a never mentioned in the statements that mention b)
       ->  the statements use a directly."""

    def run(block: list) -> bool:
        for i, st in enumerate(block):
            for f in ("body", "orelse", "finalbody"):
                sub = getattr(st, f, None)
                if isinstance(sub, list) and sub and not isinstance(st, FuncNode + (ast.ClassDef,)):
                    if run(sub):
                        return True
            for h in getattr(st, "handlers", []) or []:
                if run(h.body):
                    return True
            if isinstance(st, ast.Assign) and len(st.targets) == 1 and isinstance(st.targets[0], ast.Name) and isinstance(st.value, ast.Name):
                a_, b_ = st.targets[0].id, st.value.id
                if a_ == b_:
                    del block[i]
                    return True
                tot_l, tot_s = count_name(fn.body, b_)  # type: ignore[attr-defined]
                before = block[:i]
                bl, bs = count_name(before, b_)
                is_param = any(x.arg in (a_, b_) for x in fn.args.posonlyargs + fn.args.args + fn.args.kwonlyargs)  # type: ignore[attr-defined]
                if is_param or bs == 0 or (bl + 1, bs) != (tot_l, tot_s):
                    continue
                first = next(k for k, s in enumerate(before) if sum(count_name(s, b_)))
                span = before[first:]
                if sum(count_name(span, a_)) or _used_in_nested_scope(span, b_):
                    continue
                for s in span:
                    for n in ast.walk(s):
                        if isinstance(n, ast.Name) and n.id == b_:
                            n.id = a_
                del block[i]
                return True
        return False

    changed = False
    for _ in range(20):
        if not run(fn.body):  # type: ignore[attr-defined]
            break
        changed = True
    return changed


def tree_differs_from_reference(model) -> List[str]:
    """Modules of the analysed tree whose source differs from the reviewed source (or that have no reviewed source)."""
    out = []
    for m in model.modules.values():
        if os.path.basename(m.relpath) in ("glyphlist.py", "fontmetrics.py"):
            continue
        ref = reference_module(m.relpath)
        if ref is None or ref[0] != m.src:
            out.append(m.relpath)
    return out

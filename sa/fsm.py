"""E9 - scanner-FSM extractor for PSBaseParser (C01/C14).

States are the `_parse_*` methods; each loop-free method is explored path by path
with a tiny symbolic evaluation of the buffer index: values are positions relative
to the index `i` the scanner was called with, or to the start `j` of a regex match
found from `i` on (so `j >= i`), or `len(s)`.
"""

from __future__ import annotations

import ast
from dataclasses import dataclass, field
from typing import Dict, List, Optional, Tuple

from .cfg import build_cfg
from .fold import Folder, Regex, Unfoldable
from .model import FuncInfo, Model, dotted, unparse, walk_no_nested


@dataclass(frozen=True)
class Idx:
    base: str  # 'i' | 'j' | 'len' | '?'
    off: int = 0

    def plus(self, k: int) -> "Idx":
        return Idx(self.base, self.off + k) if self.base in ("i", "j") else Idx("?", 0)

    def __str__(self) -> str:
        if self.base == "len":
            return "len(s)"
        if self.base == "?":
            return "?"
        return self.base + (f"+{self.off}" if self.off > 0 else (str(self.off) if self.off < 0 else ""))


@dataclass
class Read:
    node: ast.AST
    text: str
    lower: Optional[Idx]
    upper: Optional[Idx]
    kind: str  # current | consumed | lookahead | unknown


@dataclass
class Transition:
    state: str
    next_state: str
    ret: Idx
    jstart: Optional[int]  # offset (relative to i) the regex search started from, when ret.base == 'j'
    advance: str  # end | adv | zero | back | unknown
    tokens: List[str]
    lineno: int
    ret_text: str
    conds: List[str]
    writes: List[str]  # self fields written along the path
    assigned: List[str] = field(default_factory=list)  # self fields plainly assigned (`self.x = ...`)
    reads_before_assign: List[str] = field(default_factory=list)  # self fields read before any plain assignment on the path


@dataclass
class ScannerInfo:
    f: FuncInfo
    transitions: List[Transition] = field(default_factory=list)
    reads: List[Read] = field(default_factory=list)
    problems: List[Tuple[ast.AST, str]] = field(default_factory=list)
    regex_uses: List[Tuple[ast.AST, str, str, Optional[Regex]]] = field(default_factory=list)  # node, regex name, target text, folded


class ScannerFSM:
    def __init__(self, model: Model, cls_qn: str = "pdfminer.psparser.PSBaseParser", state_attr: str = "_parse1", prefix: str = "_parse_") -> None:
        self.m = model
        self.cls = model.cls(cls_qn)
        self.state_attr = state_attr
        self.prefix = prefix
        self.folder = Folder(model)
        self.scanners: Dict[str, ScannerInfo] = {}
        names = [n for n in self.cls.methods if n.startswith(prefix)]
        for n in names:
            self.scanners[n] = self._analyse(self.cls.methods[n])

    # ------------------------------------------------------------------
    def _regex(self, f: FuncInfo, e: ast.AST) -> Optional[Regex]:
        try:
            v = self.folder.fold(f.module, e, f.cls)
        except Unfoldable:
            return None
        return v if isinstance(v, Regex) else None

    def _analyse(self, f: FuncInfo) -> ScannerInfo:
        info = ScannerInfo(f)
        node = f.node
        params = f.params
        if len(params) < 3:
            info.problems.append((node, "scanner does not have the (self, s, i) signature"))
            return info
        S, I = params[1], params[2]
        # structural obligations
        for n in walk_no_nested(node):
            if isinstance(n, (ast.While, ast.AsyncFor)):
                info.problems.append((n, "loop inside a scanner (scanners must be loop-free: one call consumes a bounded piece)"))
            if isinstance(n, ast.For):
                info.problems.append((n, "loop inside a scanner (scanners must be loop-free: one call consumes a bounded piece)"))
            if isinstance(n, ast.Call):
                d = dotted(n.func) or ""
                if d in ("self.nexttoken", "self.fillbuf", "self." + self.state_attr) or (d.startswith("self." + self.prefix)):
                    info.problems.append((n, f"scanner calls {d} (recursion / re-entrancy)"))
        # len(s) only as a return value
        parents: Dict[int, ast.AST] = {}
        for n in ast.walk(node):
            for c in ast.iter_child_nodes(n):
                parents[id(c)] = n
        for n in walk_no_nested(node):
            if isinstance(n, ast.Call) and (dotted(n.func) or "") == "len" and len(n.args) == 1 and isinstance(n.args[0], ast.Name) and n.args[0].id == S:
                p = parents.get(id(n))
                if not isinstance(p, ast.Return):
                    info.problems.append((n, f"`{unparse(p) if p is not None else 'len(s)'}`: the buffer length is used other than as `return len({S})` - the outcome depends on where the buffer ends"))
        g = build_cfg(node, exc_edges=False)
        try:
            paths = list(g.paths(limit=5000))
        except RuntimeError:
            info.problems.append((node, "too many paths"))
            return info
        seen_reads = set()
        for path in paths:
            if path[-1][0] != g.exit:
                continue
            env: Dict[str, object] = {I: Idx("i", 0)}
            jstart: Optional[int] = None
            next_state: Optional[str] = None
            tokens: List[str] = []
            conds: List[str] = []
            writes: List[str] = []
            assigned: List[str] = []
            rba: List[str] = []
            methods = set()
            for k in self.m.mro(self.cls.qualname):
                ci = self.m.classes.get(k)
                if ci:
                    methods |= set(ci.methods)

            def note_reads(a: ast.AST) -> None:
                for n in [a] + list(walk_no_nested(a)):
                    if isinstance(n, ast.Attribute) and isinstance(n.value, ast.Name) and n.value.id == "self" and n.attr not in methods:
                        is_store = isinstance(n.ctx, ast.Store)
                        if is_store and not isinstance(a, ast.AugAssign):
                            continue
                        if n.attr not in assigned and n.attr not in rba:
                            rba.append(n.attr)

            ret: Optional[Idx] = None
            ret_node: Optional[ast.AST] = None

            def ev(e: Optional[ast.AST]) -> Idx:
                if e is None:
                    return Idx("?")
                if isinstance(e, ast.Name):
                    v = env.get(e.id)
                    return v if isinstance(v, Idx) else Idx("?")
                if isinstance(e, ast.Call) and (dotted(e.func) or "") == "len" and len(e.args) == 1 and isinstance(e.args[0], ast.Name) and e.args[0].id == S:
                    return Idx("len")
                if isinstance(e, ast.BinOp) and isinstance(e.op, (ast.Add, ast.Sub)) and isinstance(e.right, ast.Constant) and isinstance(e.right.value, int):
                    k = e.right.value if isinstance(e.op, ast.Add) else -e.right.value
                    return ev(e.left).plus(k)
                if isinstance(e, ast.BinOp) and isinstance(e.op, ast.Add) and isinstance(e.left, ast.Constant) and isinstance(e.left.value, int):
                    return ev(e.right).plus(e.left.value)
                if isinstance(e, ast.Call) and isinstance(e.func, ast.Attribute) and e.func.attr in ("start", "end") and isinstance(e.func.value, ast.Name):
                    mv = env.get(e.func.value.id)
                    if isinstance(mv, tuple) and mv[0] == "match":
                        if e.func.attr == "start":
                            return Idx("j", 0)
                        if e.func.attr == "end" and mv[2] == 1:
                            return Idx("j", 1)
                return Idx("?")

            def scan_expr(e: ast.AST) -> None:
                nonlocal jstart
                for n in [e] + list(walk_no_nested(e)):
                    # buffer reads
                    if isinstance(n, ast.Subscript) and isinstance(n.value, ast.Name) and n.value.id == S:
                        if isinstance(n.slice, ast.Slice):
                            lo = ev(n.slice.lower) if n.slice.lower is not None else Idx("i", 0)
                            up = ev(n.slice.upper) if n.slice.upper is not None else None
                        else:
                            lo = ev(n.slice)
                            up = lo.plus(1)
                        kind = "unknown"
                        if lo.base in ("i", "j") and lo.off >= 0:
                            if up is None:
                                kind = "consumed"
                            elif up.base == "len":
                                kind = "consumed"
                            elif up.base in ("i", "j"):
                                # highest byte read is up-1; in-buffer positions: i (exact) and the match start j
                                if up.off <= 1:
                                    kind = "current" if (up.base == lo.base and up.off == lo.off + 1) else "consumed"
                                else:
                                    kind = "lookahead"
                        elif lo.base in ("i", "j") and lo.off < 0:
                            kind = "lookbehind"
                        key = (id(n), kind, str(lo), str(up))
                        if key not in seen_reads:
                            seen_reads.add(key)
                            info.reads.append(Read(n, f"{unparse(n)}  [{lo}:{up if up is not None else ''}]", lo, up, kind))
                    # regex uses
                    if isinstance(n, ast.Call) and isinstance(n.func, ast.Attribute) and n.func.attr in ("search", "match", "fullmatch", "sub", "finditer", "findall", "split"):
                        rx = self._regex(f, n.func.value)
                        if rx is not None or (dotted(n.func.value) or "").isupper():
                            tgt = unparse(n.args[0]) if n.args else ""
                            if n.func.attr == "sub" and len(n.args) >= 2:
                                tgt = unparse(n.args[1])
                            key2 = (id(n), "rx")
                            if key2 not in seen_reads:
                                seen_reads.add(key2)
                                info.regex_uses.append((n, dotted(n.func.value) or unparse(n.func.value), tgt, rx))

            for (nid, lab) in path:
                cn = g.nodes[nid]
                a = cn.ast
                if a is None:
                    continue
                note_reads(a)
                if cn.kind == "test":
                    scan_expr(a)
                    conds.append(("" if lab == "true" else "not ") + unparse(a))
                    continue
                if isinstance(a, ast.Assign) and len(a.targets) == 1:
                    scan_expr(a.value)
                    t = a.targets[0]
                    if isinstance(t, ast.Name):
                        v = a.value
                        if isinstance(v, ast.Call) and isinstance(v.func, ast.Attribute) and v.func.attr in ("search", "match") and len(v.args) >= 1 and isinstance(v.args[0], ast.Name) and v.args[0].id == S:
                            st = ev(v.args[1]) if len(v.args) > 1 else Idx("i", 0)
                            rx = self._regex(f, v.func.value)
                            w = rx.max_width() if rx is not None else -1
                            env[t.id] = ("match", st, w)
                            if st.base == "i":
                                jstart = st.off
                            else:
                                jstart = None
                        else:
                            iv = ev(v)
                            env[t.id] = iv if iv.base != "?" else None
                    elif isinstance(t, ast.Attribute) and isinstance(t.value, ast.Name) and t.value.id == "self":
                        writes.append(t.attr)
                        assigned.append(t.attr)
                        if t.attr == self.state_attr:
                            d = dotted(v := a.value) or ""
                            if d.startswith("self."):
                                next_state = d[5:]
                            else:
                                next_state = "?" + unparse(a.value)
                    elif isinstance(t, (ast.Tuple, ast.List)):
                        for e in t.elts:
                            if isinstance(e, ast.Name):
                                env[e.id] = None
                elif isinstance(a, ast.AugAssign):
                    scan_expr(a.value)
                    if isinstance(a.target, ast.Name):
                        cur = env.get(a.target.id)
                        if isinstance(cur, Idx) and isinstance(a.op, (ast.Add, ast.Sub)) and isinstance(a.value, ast.Constant) and isinstance(a.value.value, int):
                            env[a.target.id] = cur.plus(a.value.value if isinstance(a.op, ast.Add) else -a.value.value)
                        else:
                            env[a.target.id] = None
                    elif isinstance(a.target, ast.Attribute) and isinstance(a.target.value, ast.Name) and a.target.value.id == "self":
                        writes.append(a.target.attr)
                elif isinstance(a, ast.AnnAssign):
                    if a.value is not None:
                        scan_expr(a.value)
                    if isinstance(a.target, ast.Name):
                        env[a.target.id] = None
                elif isinstance(a, ast.Return):
                    if a.value is not None:
                        scan_expr(a.value)
                    ret = ev(a.value)
                    ret_node = a
                elif isinstance(a, ast.Expr):
                    scan_expr(a.value)
                    if isinstance(a.value, ast.Call) and (dotted(a.value.func) or "") == "self._add_token":
                        tokens.append(unparse(a.value.args[0]) if a.value.args else "")
                else:
                    scan_expr(a)
            if ret is None:
                info.problems.append((node, "a path leaves the scanner without returning the next index"))
                continue
            if ret.base == "len":
                adv = "end"
            elif ret.base == "i":
                adv = "adv" if ret.off >= 1 else ("zero" if ret.off == 0 else "back")
            elif ret.base == "j":
                if jstart is None:
                    adv = "unknown"
                else:
                    tot = jstart + ret.off
                    adv = "adv" if tot >= 1 else ("zero" if tot == 0 else "back")
            else:
                adv = "unknown"
            info.transitions.append(
                Transition(f.name, next_state or f.name, ret, jstart, adv, tokens, getattr(ret_node, "lineno", 0), unparse(ret_node) if ret_node is not None else "", conds, writes, assigned, rba)
            )
        return info

    # ------------------------------------------------------------------
    def zero_graph(self) -> Dict[str, List[Tuple[str, Transition]]]:
        g: Dict[str, List[Tuple[str, Transition]]] = {}
        for name, sc in self.scanners.items():
            for t in sc.transitions:
                if t.advance in ("zero", "unknown", "back"):
                    g.setdefault(name, []).append((t.next_state, t))
        return g

    def zero_cycles(self) -> List[List[Tuple[str, Transition]]]:
        g = self.zero_graph()
        cycles: List[List[Tuple[str, Transition]]] = []
        seen_cycles = set()

        def dfs(start: str, cur: str, path: List[Tuple[str, Transition]], visited: List[str]) -> None:
            for (nxt, t) in g.get(cur, []):
                if nxt == start:
                    cyc = path + [(cur, t)]
                    key = tuple(sorted({s for s, _ in cyc}))
                    if key not in seen_cycles:
                        seen_cycles.add(key)
                        cycles.append(cyc)
                elif nxt not in visited and nxt in g:
                    dfs(start, nxt, path + [(cur, t)], visited + [nxt])

        for s in sorted(g):
            dfs(s, s, [], [s])
        return cycles

"""Reference-relative canonical local names.

Rules are written against the local variable names of the tree they were confirmed on.  To keep them
silent when a function's locals are merely renamed, every function's locals (ordered by first binding)
are aligned with the reference list recorded for that function in spec/reference_locals.json and renamed
back to the reference names before any rule looks at the tree.  If the number of locals differs (a real
structural edit) nothing is renamed.
"""

from __future__ import annotations

import ast
import json
import os
from typing import Dict, List, Optional, Set, Tuple


def dfs(node: ast.AST):
    """Pre-order walk in field order: the order is a function of the tree's structure, not of line numbers, so it is
    the same for a tree whose statements were re-arranged back into the reference shape."""
    yield node
    for ch in ast.iter_child_nodes(node):
        yield from dfs(ch)


def ordered_locals(fn: ast.AST) -> List[str]:
    """Function-local names (bound by assignment / for / with / comprehension / except-as), by first binding;
    parameters of the function and of nested functions, nested def/class names and global/nonlocal names excluded."""
    params: Set[str] = set()
    a = fn.args  # type: ignore[attr-defined]
    for x in a.posonlyargs + a.args + a.kwonlyargs:
        params.add(x.arg)
    if a.vararg:
        params.add(a.vararg.arg)
    if a.kwarg:
        params.add(a.kwarg.arg)
    banned: Set[str] = set()
    first: Dict[str, Tuple[int, int]] = {}
    for seq, n in enumerate(dfs(fn)):
        if isinstance(n, (ast.Global, ast.Nonlocal)):
            banned |= set(n.names)
        if isinstance(n, (ast.FunctionDef, ast.AsyncFunctionDef, ast.Lambda)) and n is not fn:
            aa = n.args
            for x in aa.posonlyargs + aa.args + aa.kwonlyargs:
                banned.add(x.arg)
            if aa.vararg:
                banned.add(aa.vararg.arg)
            if aa.kwarg:
                banned.add(aa.kwarg.arg)
            if not isinstance(n, ast.Lambda):
                banned.add(n.name)
        if isinstance(n, ast.ClassDef):
            banned.add(n.name)
        if isinstance(n, ast.Name) and isinstance(n.ctx, ast.Store):
            pos = (seq, 0)
            if n.id not in first or pos < first[n.id]:
                first[n.id] = pos
    names = [k for k in first if k not in params and k not in banned and not (k.startswith("__") and k.endswith("__"))]
    names.sort(key=lambda k: first[k])
    return names


def rename_in_place(fn: ast.AST, mapping: Dict[str, str]) -> None:
    if not mapping:
        return
    for n in ast.walk(fn):
        if isinstance(n, ast.Name) and n.id in mapping:
            n.id = mapping[n.id]


_FLIP = {ast.Lt: ast.Gt, ast.Gt: ast.Lt, ast.LtE: ast.GtE, ast.GtE: ast.LtE, ast.Eq: ast.Eq, ast.NotEq: ast.NotEq}


def single_compares(fn: ast.AST) -> List[ast.Compare]:
    return [n for n in dfs(fn) if isinstance(n, ast.Compare) and len(n.ops) == 1 and type(n.ops[0]) in _FLIP]


def compare_text(n: ast.Compare, flipped: bool = False) -> str:
    if not flipped:
        return ast.unparse(n)
    m = ast.Compare(left=n.comparators[0], ops=[_FLIP[type(n.ops[0])]()], comparators=[n.left])
    return ast.unparse(m)


def unflip(qualname: str, fn: ast.AST) -> int:
    """Undo pure operand flips of comparisons (a < b written as b > a) relative to the reference tree."""
    ref = reference_compares().get(qualname)
    if not ref:
        return 0
    cur = single_compares(fn)
    if len(cur) != len(ref):
        return 0
    k = 0
    for n, r in zip(cur, ref):
        if compare_text(n) != r and compare_text(n, flipped=True) == r:
            n.left, n.comparators, n.ops = n.comparators[0], [n.left], [_FLIP[type(n.ops[0])]()]
            k += 1
    return k


def two_armed_ifs(fn: ast.AST) -> List[ast.If]:
    """if statements with an else arm (elif chains included: an elif is an `if` in the else arm), outermost first."""
    out = []
    for n in dfs(fn):
        if isinstance(n, ast.If) and n.orelse:
            out.append(n)
    return out


def _negated_text(t: ast.AST) -> str:
    if isinstance(t, ast.UnaryOp) and isinstance(t.op, ast.Not):
        return ast.unparse(t.operand)
    return ast.unparse(ast.UnaryOp(op=ast.Not(), operand=t))


def uninvert(qualname: str, fn: ast.AST) -> int:
    """Undo `if c: A else: B` written as `if not c: B else: A` relative to the reference tree (outermost first, so that
    the structural order of the inner statements is restored before they are compared)."""
    ref = reference_ifs().get(qualname)
    if not ref or len(two_armed_ifs(fn)) != len(ref):
        return 0
    k = 0
    for i, r in enumerate(ref):
        cur = two_armed_ifs(fn)
        if len(cur) != len(ref):
            break
        n = cur[i]
        if ast.unparse(n.test) != r and _negated_text(n.test) == r:
            t = n.test.operand if isinstance(n.test, ast.UnaryOp) and isinstance(n.test.op, ast.Not) else ast.UnaryOp(op=ast.Not(), operand=n.test)
            n.test = ast.copy_location(t, n.test)
            n.body, n.orelse = n.orelse, n.body
            k += 1
    return k


_REFI: Optional[Dict[str, List[str]]] = None


def reference_ifs() -> Dict[str, List[str]]:
    global _REFI
    if _REFI is None:
        p = os.path.join(os.path.dirname(os.path.dirname(os.path.abspath(__file__))), "spec", "reference_ifs.json")
        _REFI = json.load(open(p)) if os.path.exists(p) else {}
    return _REFI


_REFC: Optional[Dict[str, List[str]]] = None


def reference_compares() -> Dict[str, List[str]]:
    global _REFC
    if _REFC is None:
        p = os.path.join(os.path.dirname(os.path.dirname(os.path.abspath(__file__))), "spec", "reference_compares.json")
        _REFC = json.load(open(p)) if os.path.exists(p) else {}
    return _REFC


_REF: Optional[Dict[str, List[str]]] = None


def reference() -> Dict[str, List[str]]:
    global _REF
    if _REF is None:
        p = os.path.join(os.path.dirname(os.path.dirname(os.path.abspath(__file__))), "spec", "reference_locals.json")
        _REF = json.load(open(p)) if os.path.exists(p) else {}
    return _REF


def canonicalise(qualname: str, fn: ast.AST) -> bool:
    """Rename fn's locals to the reference names when the lists align one to one. Returns True if anything changed."""
    ref = reference().get(qualname)
    if not ref:
        return False
    cur = ordered_locals(fn)
    if cur == ref or len(cur) != len(ref):
        return False
    mapping = {c: r for c, r in zip(cur, ref) if c != r}
    # a two-step rename avoids collisions when names are permuted
    tmp = {c: f"\x00{i}" for i, c in enumerate(mapping)}
    rename_in_place(fn, tmp)
    rename_in_place(fn, {tmp[c]: mapping[c] for c in mapping})
    return True

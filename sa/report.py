"""E13 - rule registry, verdicts, known-findings matching, evidence, exit codes."""

from __future__ import annotations

import json
import os
import sys
import time
from dataclasses import dataclass, field
from typing import Any, Dict, List, Optional

VERIF = os.path.dirname(os.path.dirname(os.path.abspath(__file__)))
KNOWN_FINDINGS = os.path.join(VERIF, "known_findings.jsonl")
EVIDENCE_DIR = os.environ.get("VERIF_EVIDENCE_DIR", os.path.join(VERIF, "evidence"))


class AnalysisError(Exception):
    """The analysis itself is broken (vanished anchor, vacuous rule...)."""


@dataclass
class Instance:
    rule: str
    site: str  # file:line:function
    function: str  # qualified function / table name (stable key)
    construct: str  # normalised construct (stable key)
    verdict: str  # ok | violation | known | safe
    note: str = ""
    nontrivial: bool = True

    def key(self) -> tuple:
        return (self.rule, self.function, self.construct)

    def as_sample(self) -> Dict[str, Any]:
        d = {"rule": self.rule, "site": self.site, "construct": self.construct[:300], "verdict": self.verdict}
        if self.note:
            d["note"] = self.note[:400]
        return d


@dataclass
class Rule:
    rid: str
    kind: str
    desc: str
    min_instances: int
    report: "Report"
    instances: List[Instance] = field(default_factory=list)

    def _add(self, verdict: str, site: str, function: str, construct: str, note: str, nontrivial: bool = True) -> Instance:
        inst = Instance(self.rid, site, function, " ".join(construct.split()), verdict, note, nontrivial)
        self.instances.append(inst)
        return inst

    def ok(self, site: str, function: str, construct: str, note: str = "", nontrivial: bool = True) -> None:
        self._add("ok", site, function, construct, note, nontrivial)

    def safe(self, site: str, function: str, construct: str, reason: str) -> None:
        self._add("safe", site, function, construct, reason)

    def violation(self, site: str, function: str, construct: str, why: str) -> None:
        inst = self._add("violation", site, function, construct, why)
        kf = self.report.known.get(inst.key())
        if kf is not None and kf.get("status") == "known":
            inst.verdict = "known"
            inst.note = f"{why} [known finding: {kf.get('what', '')}]"
            self.report.matched_known.add(inst.key())

    def check(self, cond: bool, site: str, function: str, construct: str, why: str = "", note: str = "") -> bool:
        if cond:
            self.ok(site, function, construct, note)
        else:
            self.violation(site, function, construct, why or "obligation not met")
        return cond

    def counts(self) -> Dict[str, int]:
        c = {"ok": 0, "violation": 0, "known": 0, "safe": 0}
        for i in self.instances:
            c[i.verdict] += 1
        return c


class Report:
    def __init__(self, prop: str, tier: str = "quick", quiet: bool = False) -> None:
        self.prop = prop
        self.tier = tier
        self.quiet = quiet
        self.selftest: Optional[Dict[str, Any]] = None
        self.tree_changed = False
        self.t0 = time.time()
        self.rules: Dict[str, Rule] = {}
        self.known: Dict[tuple, Dict[str, Any]] = {}
        self.matched_known: set = set()
        self.analysed: Dict[str, Any] = {}
        self.assumptions: List[str] = []
        self.explanation = ""
        self.notes: List[str] = []
        self.extra: Dict[str, Any] = {}
        self._load_known()

    def _load_known(self) -> None:
        if not os.path.exists(KNOWN_FINDINGS):
            return
        with open(KNOWN_FINDINGS, "r", encoding="utf-8") as f:
            for line in f:
                line = line.strip()
                if not line or line.startswith("#"):
                    continue
                d = json.loads(line)
                if d.get("property") != self.prop:
                    continue
                key = (d["rule"], d["function"], " ".join(d["construct"].split()))
                self.known[key] = d

    def rule(self, rid: str, kind: str, desc: str, min_instances: int = 1) -> Rule:
        if rid in self.rules:
            return self.rules[rid]
        r = Rule(rid, kind, desc, min_instances, self)
        self.rules[rid] = r
        return r

    # ------------------------------------------------------------------ output
    def finish(self) -> int:
        wall = time.time() - self.t0
        all_inst = [i for r in self.rules.values() for i in r.instances]
        viol = [i for i in all_inst if i.verdict == "violation"]
        known = [i for i in all_inst if i.verdict == "known"]
        # a rule that found fewer sites than confirmed by hand is analysis-broken - unless it already reports a violation
        # (a rule that stops at the first construct it cannot analyse has few instances and one honest finding)
        vacuous = [r for r in self.rules.values() if len(r.instances) < r.min_instances and not any(i.verdict == "violation" for i in r.instances)]
        if self.quiet and not getattr(self, "tree_changed", False):
            self.violations = viol
            self.vacuous = vacuous
            return 1 if viol else 0
        if vacuous and getattr(self, "tree_changed", False):
            # an edited tree on which a rule finds fewer sites than were confirmed by hand: the sites were removed or rewritten
            # beyond recognition - a violation naming the rule (fail-closed), not a broken analysis
            for r in vacuous:
                r.violation("pdfminer:0", "anchor", f"{r.rid}: only {len(r.instances)} of the {r.min_instances} reviewed sites found", "the constructs this rule was confirmed on are gone from the edited tree; the clause cannot be re-confirmed")
            all_inst = [i for r in self.rules.values() for i in r.instances]
            viol = [i for i in all_inst if i.verdict == "violation"]
            vacuous = []
        if self.quiet:
            self.violations = viol
            self.vacuous = vacuous
            return 1 if viol else 0
        if vacuous:
            msgs = [f"{r.rid}: {len(r.instances)} instances < minimum {r.min_instances} confirmed by hand" for r in vacuous]
            raise AnalysisError("vacuous rule(s): " + "; ".join(msgs))

        os.makedirs(EVIDENCE_DIR, exist_ok=True)
        obligations = len(all_inst)
        discharged = sum(1 for i in all_inst if i.verdict in ("ok", "safe"))
        distinct = len({i.key() for i in all_inst if i.nontrivial})
        samples = [i.as_sample() for i in (viol + known)[:10]]
        seen_rules = set()
        for i in all_inst:
            if len(samples) >= 40:
                break
            if i.rule not in seen_rules or len([s for s in samples if s["rule"] == i.rule]) < 3:
                samples.append(i.as_sample())
                seen_rules.add(i.rule)
        rules_summary = []
        for r in self.rules.values():
            c = r.counts()
            rules_summary.append(
                {"id": r.rid, "kind": r.kind, "desc": r.desc, "instances": len(r.instances), "min_instances": r.min_instances, **c}
            )
        ev = {
            "property_id": self.prop,
            "tier": self.tier,
            "seed": int(os.environ.get("VERIF_SEED", "0") or 0),
            "level": "other",
            "wall_s": round(wall, 3),
            "violations": len(viol),
            "coverage": {
                "explanation": self.explanation
                or "Static analysis of /repo's current source (ast; nothing executed). Each rule instance is an obligation decided on the syntax tree / CFG / call graph.",
                "obligations": obligations,
                "discharged": discharged,
                "known_findings": len(known),
                "evaluations": max(obligations, 1),
                "distinct_nontrivial": max(distinct, 0),
                "rule": "instances are enumerated from the source by each rule (sites the rule applies to); distinct = distinct (rule, function, normalised construct) keys; non-trivial = decided by an analysis of the construct rather than by its mere presence",
                "samples": samples,
                "rules": rules_summary,
                "analysed": self.analysed,
                "checker_cmd": f"./check {self.prop} --tier {self.tier}",
                "trusted_base": ["CPython ast/re._parser", "spec tables under /verif/spec", "rule instance tables under /verif/sa/rules"],
                "exhaustive": False,
                **({"selftest": self.selftest} if self.selftest is not None else {}),
                **self.extra,
            },
            "assumptions": self.assumptions,
        }
        path = os.path.join(EVIDENCE_DIR, f"{self.prop}.json")
        with open(path, "w", encoding="utf-8") as f:
            json.dump(ev, f, indent=1, sort_keys=False, default=str)

        # human-readable summary
        print(f"== {self.prop} [{self.tier}] {obligations} obligations, {discharged} discharged, {len(known)} known findings, {len(viol)} violations, {wall:.2f}s")
        for r in self.rules.values():
            c = r.counts()
            print(f"   {r.rid:<9} {r.kind:<10} n={len(r.instances):<4} ok={c['ok']} safe={c['safe']} known={c['known']} viol={c['violation']}  {r.desc}")
        for n in self.notes:
            print(f"   note: {n}")
        for i in known:
            print(f"KNOWN-FINDING: property={self.prop} {i.rule} {i.site} `{i.construct[:160]}` - {i.note[:300]}")
        if viol:
            rp = os.path.join(EVIDENCE_DIR, f"{self.prop}.replay.json")
            with open(rp, "w", encoding="utf-8") as f:
                json.dump({"property": self.prop, "tier": self.tier, "violations": [vars(i) for i in viol]}, f, indent=1)
            for i in viol:
                print(f"  VIOLATION-DETAIL {i.rule} at {i.site}: `{i.construct[:200]}` - {i.note}")
            print(f"VIOLATION property={self.prop} replay={rp}")
            return 1
        else:
            rp = os.path.join(EVIDENCE_DIR, f"{self.prop}.replay.json")
            if os.path.exists(rp):
                os.remove(rp)
        return 0


def main_guard(prop: str, fn) -> int:
    """Run fn() -> int; turn analysis breakage into exit 2 (never a VIOLATION)."""
    from .model import AnchorMissing

    try:
        return fn()
    except (AnalysisError, AnchorMissing) as e:
        print(f"ANALYSIS-ERROR property={prop}: {e}")
        return 2
    except Exception as e:  # pragma: no cover
        import traceback

        traceback.print_exc()
        print(f"ANALYSIS-ERROR property={prop}: unexpected {type(e).__name__}: {e}")
        return 2

"""CLI: python -m sa.main <PROP> [--tier quick|thorough] [--replay file]"""

from __future__ import annotations

import argparse
import importlib
import json
import os
import sys

from .model import Model
from .report import Report, main_guard


def run(prop: str, tier: str, replay: str = "") -> int:
    def body() -> int:
        mod = importlib.import_module(f"sa.rules.{prop.lower()}")
        model = Model()
        rep = Report(prop, tier)
        rep.analysed.update({"repo": model.root, "modules": len(model.modules), "classes": len(model.classes), "functions": len(model.funcs)})
        if model.heal_log:
            # functions whose current form was proven equivalent to the reviewed form (sa/equiv.py) and analysed in that form
            rep.analysed["equivalence_layer"] = model.heal_log
            for line in model.heal_log:
                print(f"   equiv: {line}")
        mod.run(model, rep)
        st_summary = None
        if tier == "thorough":
            st = importlib.import_module("sa.selftest.runner")
            st_summary = st.run_for(prop, model)
            rep.selftest = {k: v for k, v in st_summary.items() if k != "results"}
            rep.selftest["sample_results"] = st_summary["results"][:12]
        rc = rep.finish()
        if replay:
            # replay: report whether the recorded violations still occur
            try:
                with open(replay) as f:
                    old = json.load(f)
                cur = {(i.rule, i.function, i.construct) for r in rep.rules.values() for i in r.instances if i.verdict == "violation"}
                for v in old.get("violations", []):
                    k = (v["rule"], v["function"], v["construct"])
                    print(("STILL-FAILS " if k in cur else "NO-LONGER-FAILS ") + f"{v['rule']} {v['site']} `{v['construct'][:120]}`")
            except OSError as e:
                print(f"replay file unreadable: {e}")
        if rc == 0 and st_summary is not None and os.environ.get("VERIF_SELFTEST_STRICT") == "1":
            if st_summary["missed"] or st_summary["false_alarms"]:
                print(f"ANALYSIS-ERROR property={prop}: self-test of the rules failed: missed={st_summary['missed']} false_alarms={st_summary['false_alarms']}")
                return 2
        return rc

    return main_guard(prop, body)


def main() -> None:
    ap = argparse.ArgumentParser()
    ap.add_argument("prop")
    ap.add_argument("--tier", default=os.environ.get("VERIF_TIER", "quick"), choices=["quick", "thorough"])
    ap.add_argument("--replay", default="")
    a = ap.parse_args()
    sys.exit(run(a.prop.upper(), a.tier, a.replay))


if __name__ == "__main__":
    main()

"""CLI: python -m sa.main <PROP> [--tier quick|thorough] [--replay file]"""

from __future__ import annotations

import argparse
import importlib
import json
import os
import sys

from .model import Model
from .report import Report, main_guard


def run(prop: str, tier: str, replay: str = "") -> int:
    def body() -> int:
        mod = importlib.import_module(f"sa.rules.{prop.lower()}")
        model = Model()
        rep = Report(prop, tier)
        rep.analysed.update({"repo": model.root, "modules": len(model.modules), "classes": len(model.classes), "functions": len(model.funcs)})
        if model.heal_log:
            # functions whose current form was proven equivalent to the reviewed form (sa/equiv.py) and analysed in that form
            rep.analysed["equivalence_layer"] = model.heal_log
            for line in model.heal_log:
                print(f"   equiv: {line}")
        from .equiv import tree_differs_from_reference
        from .model import AnchorMissing

        changed = tree_differs_from_reference(model)
        rep.tree_changed = bool(changed)
        try:
            mod.run(model, rep)
        except AnchorMissing as e:
            if not changed:
                raise  # the reviewed tree itself: the analysis is broken, not the repository
            # The tree was edited and a function / table / statement that the rules of this property are anchored in no
            # longer exists - and the equivalence layer found no renamed, moved or refactored counterpart.  The mechanism the
            # property relies on was removed or rewritten beyond recognition: reported as a violation (fail-closed), naming
            # the anchor, rather than as a broken analysis.
            r0 = rep.rule(f"{prop}-R0", "ANCHOR", "the constructs the rules of this property were confirmed on still exist (after undoing renames, moves and refactorings that could be proved equivalent)", 0)
            r0.violation(f"{changed[0]}:0", "anchor", str(e)[:200], f"reviewed construct not found in the edited tree ({', '.join(changed)} differ from the reviewed sources): the mechanism was removed or rewritten and none of its clauses can be re-confirmed")
        st_summary = None
        if tier == "thorough":
            st = importlib.import_module("sa.selftest.runner")
            st_summary = st.run_for(prop, model)
            rep.selftest = {k: v for k, v in st_summary.items() if k != "results"}
            rep.selftest["sample_results"] = st_summary["results"][:12]
        rc = rep.finish()
        if replay:
            # replay: report whether the recorded violations still occur
            try:
                with open(replay) as f:
                    old = json.load(f)
                cur = {(i.rule, i.function, i.construct) for r in rep.rules.values() for i in r.instances if i.verdict == "violation"}
                for v in old.get("violations", []):
                    k = (v["rule"], v["function"], v["construct"])
                    print(("STILL-FAILS " if k in cur else "NO-LONGER-FAILS ") + f"{v['rule']} {v['site']} `{v['construct'][:120]}`")
            except OSError as e:
                print(f"replay file unreadable: {e}")
        if rc == 0 and st_summary is not None and os.environ.get("VERIF_SELFTEST_STRICT") == "1":
            if st_summary["missed"] or st_summary["false_alarms"]:
                print(f"ANALYSIS-ERROR property={prop}: self-test of the rules failed: missed={st_summary['missed']} false_alarms={st_summary['false_alarms']}")
                return 2
        return rc

    return main_guard(prop, body)


def main() -> None:
    ap = argparse.ArgumentParser()
    ap.add_argument("prop")
    ap.add_argument("--tier", default=os.environ.get("VERIF_TIER", "quick"), choices=["quick", "thorough"])
    ap.add_argument("--replay", default="")
    a = ap.parse_args()
    sys.exit(run(a.prop.upper(), a.tier, a.replay))


if __name__ == "__main__":
    main()

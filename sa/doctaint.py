"""Intra-procedural kinds of document values (forward, flow-insensitive) used by C13.

Kinds:
  RAW    - a value taken from the document whose Python type nothing has checked yet
           (result of resolve1 / dict.get / subscript of a document container / operand ...)
  DICT   - a dict of document values      (dict_value(...), parameters annotated Dict/Mapping)
  LIST   - a list/tuple of document values (list_value(...))
  STREAM - a PDFStream                     (stream_value(...), isinstance-checked)
  NUM    - a number taken from the document (int_value, num_value, safe_float, ...)
  PAIRS  - list of (pos, RAW) tuples       (parser pop/popall)
None: not document data / type known and harmless (bytes from str_value, str from literal_name ...).
"""

from __future__ import annotations

import ast
from typing import Dict, Optional, Set

from .model import FuncInfo, dotted, walk_no_nested

RAW_CALLS = {"resolve1", "resolve_all", "get_any", "getobj", "resolve"}
DICT_CALLS = {"dict_value"}
LIST_CALLS = {"list_value"}
STREAM_CALLS = {"stream_value"}
NUM_CALLS = {"int_value", "num_value", "float_value", "uint_value", "safe_int", "safe_float", "nunpack"}
TYPED_CALLS = {"str_value", "literal_name", "keyword_name", "decode_text", "get_data", "get_rawdata", "len", "isinstance", "bool", "str", "repr", "bytes", "id", "type", "safe_rgb", "safe_cmyk", "safe_matrix", "safe_rect", "safe_rect_list", "enc", "make_compat_str"}

DICT_ATTRS = {"attrs", "catalog", "param", "cidsysteminfo", "_obj", "trailer", "cf"}
RAW_ATTRS = {"resources", "annots", "beads", "lastmod", "contents", "srcsize", "imagemask", "bits"}
# LTImage.colorspace: LTImage.__init__ wraps a non-list value into a list, so it is always a list (of unchecked values)
# NumberTree.nums / kids / limits: assigned from list_value(...) (or None, tested before use)
LIST_ATTRS = {"colorspace", "nums", "kids", "limits"}
# (class name anywhere in the MRO, attribute) -> kind of self.<attribute>
CLASS_ATTR_KIND = {
    ("CCITTG4Parser", "width"): "RAW",  # /Columns of the filter parameters, passed on unchecked
    ("PDFXRefStream", "fl1"): "RAW",
    ("PDFXRefStream", "fl2"): "RAW",
    ("PDFXRefStream", "fl3"): "RAW",
    ("NumberTree", "values"): "PAIRS",  # (number, value) pairs flattened from /Nums arrays: the values are unchecked
}
# (class name, attribute) -> kinds of the elements when iterating self.<attribute>
CLASS_ATTR_ELEM = {
    ("PDFXRefStream", "ranges"): ("RAW", "RAW"),  # pairs cut out of /Index, unchecked
}


# attributes that hold an unchecked document value whatever the receiver expression is
ANY_RECEIVER_RAW = {"ncomponents"}  # PDFColorSpace.ncomponents: /N of an ICCBased profile stream, passed on unchecked

PARAM_KIND = {
    "pdfminer.pdfdocument.PDFDocument.read_xref_from": {"start": "NUM"},  # int_value(trailer['Prev' | 'XRefStm']) / the startxref number
}

# modules whose `Any`/`object` parameters carry the module's own data (ccitt: leaves of the code tries, bits), not document values
INTERNAL_ANY_MODULES = {"pdfminer.ccitt", "pdfminer.arcfour", "pdfminer.jbig2"}


def _ann_kind(ann: Optional[ast.AST]) -> Optional[str]:
    if ann is None:
        return None
    t = ast.unparse(ann)
    t0 = t.strip("'\"")
    if t0.startswith(("Dict[", "Mapping[", "MutableMapping[")):
        return "DICT"
    if t0 in ("PDFStream",):
        return "STREAM"
    if t0.startswith(("PDFStackT",)) or t0 in ("object", "Any"):
        return "RAW"
    if t0.startswith(("Sequence[object]", "Iterable[object]", "List[object]", "Iterable[Any]", "List[Any]", "Sequence[Any]")):
        return "LIST"
    return None


class DocTaint:
    def __init__(self, f: FuncInfo) -> None:
        self.f = f
        self.vars: Dict[str, str] = {}
        self.narrowed: Dict[str, Set[str]] = {}
        node = f.node
        if hasattr(node, "args"):
            a = node.args  # type: ignore[attr-defined]
            for x in a.posonlyargs + a.args + a.kwonlyargs:
                k = _ann_kind(x.annotation)
                if k == "RAW" and f.module.name in INTERNAL_ANY_MODULES:
                    continue
                if k and x.arg not in ("self", "cls"):
                    self.vars[x.arg] = k
        # parameters that carry document integers although annotated `int` (filled from int_value(...) of a dictionary entry)
        for pn, kd in PARAM_KIND.get(f.qualname, {}).items():
            self.vars[pn] = kd
        if f.cls is not None and f.cls.name == "PDFPageInterpreter" and f.name.startswith("do_") and hasattr(node, "args"):
            for x in node.args.args[1:]:  # type: ignore[attr-defined]
                self.vars[x.arg] = "RAW"
        self._mro_names = set()
        if f.cls is not None:
            q = [f.cls.node]
            self._mro_names.add(f.cls.name)
            for b in f.cls.node.bases:
                self._mro_names.add(ast.unparse(b).split("[")[0].split(".")[-1])
        for _ in range(5):
            changed = False
            for n in walk_no_nested(node):
                # container.append(<doc value>) makes the container a list of document values
                if isinstance(n, ast.Call) and isinstance(n.func, ast.Attribute) and n.func.attr in ("append", "extend", "insert") and isinstance(n.func.value, ast.Name) and n.args:
                    if self.kind(n.args[-1]) in ("RAW", "NUM", "LIST"):
                        changed |= self._set(n.func.value.id, "LIST")
                pairs = []
                if isinstance(n, ast.Assign):
                    for t in n.targets:
                        pairs.append((t, n.value, False))
                elif isinstance(n, ast.AnnAssign) and n.value is not None:
                    pairs.append((n.target, n.value, False))
                elif isinstance(n, (ast.For, ast.AsyncFor)):
                    pairs.append((n.target, n.iter, True))
                elif isinstance(n, ast.comprehension):
                    pairs.append((n.target, n.iter, True))
                for (t, v, is_iter) in pairs:
                    changed |= self._bind(t, v, is_iter)
            if not changed:
                break

    # ------------------------------------------------------------------
    def _set(self, name: str, kind: Optional[str]) -> bool:
        if kind is None:
            return False
        cur = self.vars.get(name)
        if cur == kind:
            return False
        if cur is None:
            self.vars[name] = kind
            return True
        # conflicting kinds: the least trusted wins
        if cur != "RAW":
            self.vars[name] = "RAW"
            return True
        return False

    def elem_kind(self, it: ast.AST) -> Optional[object]:
        """Kind(s) of the elements produced by iterating `it`: a kind, or a tuple of kinds for tuple elements."""
        if isinstance(it, ast.Call):
            d = dotted(it.func) or ""
            short = d.split(".")[-1]
            if short == "items" and isinstance(it.func, ast.Attribute):
                k = self.kind(it.func.value)
                if k in ("DICT", "RAW"):
                    return (None, "RAW")
                return None
            if short == "values" and isinstance(it.func, ast.Attribute):
                return "RAW" if self.kind(it.func.value) in ("DICT", "RAW") else None
            if short == "enumerate" and it.args:
                return (None, self.elem_kind(it.args[0]))
            if short == "zip":
                return tuple(self.elem_kind(a) for a in it.args)
            if short == "choplist" and len(it.args) == 2:
                ek = self.elem_kind(it.args[1])
                n = it.args[0].value if isinstance(it.args[0], ast.Constant) else 0
                return tuple([ek] * n) if n else None
            if short in ("iter", "list", "tuple", "reversed", "sorted") and it.args:
                return self.elem_kind(it.args[0])
            if short in ("popall", "pop") and d.startswith("self."):
                return (None, "RAW")
            if short == "get_filters":
                return ("RAW", "RAW")
            k = self.kind(it)
            if k in ("LIST", "RAW", "VEC"):
                return "RAW"
            if k == "PAIRS":
                return (None, "RAW")
            return None
        if isinstance(it, ast.Attribute) and isinstance(it.value, ast.Name) and it.value.id == "self":
            for cn in self._mro_names:
                if (cn, it.attr) in CLASS_ATTR_ELEM:
                    return CLASS_ATTR_ELEM[(cn, it.attr)]
        k = self.kind(it)
        if k == "FPAIRS":
            return ("RAW", "RAW")
        if k in ("LIST", "RAW", "DICT", "VEC"):
            return "RAW" if k != "DICT" else None
        if k == "PAIRS":
            return (None, "RAW")
        if isinstance(it, (ast.List, ast.Tuple)):
            ks = {self.kind(e) for e in it.elts}
            return "RAW" if ks & {"RAW", "DICT", "LIST"} else None
        return None

    def _bind(self, t: ast.AST, v: ast.AST, is_iter: bool) -> bool:
        ch = False
        k: object = self.elem_kind(v) if is_iter else None
        if not is_iter:
            if isinstance(t, (ast.Tuple, ast.List)):
                # (pos, obj) = parser.nextobject()
                if isinstance(v, ast.Call) and (dotted(v.func) or "").split(".")[-1] in ("nextobject", "nexttoken"):
                    k = (None, "RAW")
                elif len(t.elts) == 2 and (
                    (isinstance(v, ast.Call) and (dotted(v.func) or "").split(".")[-1] == "_get_objects")
                    or (isinstance(v, ast.Subscript) and (dotted(v.value) or "").endswith("._parsed_objs"))
                ):
                    # (objs, n) of an object stream: the token list of the payload (as long as the payload happens to be) and /N
                    k = ("LIST", "NUM")
                elif isinstance(v, (ast.Tuple, ast.List)) and len(v.elts) == len(t.elts):
                    for a, b in zip(t.elts, v.elts):
                        ch |= self._bind(a, b, False)
                    return ch
                else:
                    vk = self.kind(v)
                    if vk in ("LIST", "RAW", "VEC"):
                        k = tuple(["RAW"] * len(t.elts))
                    elif vk == "PAIRS":
                        k = tuple([(None, "RAW")] * len(t.elts))
                    else:
                        k = None
            else:
                k = self.kind(v)
        return self._bind_kind(t, k)

    def _bind_kind(self, t: ast.AST, k: object) -> bool:
        ch = False
        if isinstance(t, ast.Name):
            if isinstance(k, str):
                ch |= self._set(t.id, k)
            elif isinstance(k, tuple):
                ch |= self._set(t.id, None)
        elif isinstance(t, (ast.Tuple, ast.List)):
            if isinstance(k, tuple) and len(k) == len(t.elts):
                for a, kk in zip(t.elts, k):
                    ch |= self._bind_kind(a, kk)
            elif isinstance(k, str) and k in ("RAW",):
                for a in t.elts:
                    ch |= self._bind_kind(a, "RAW")
        elif isinstance(t, ast.Starred):
            ch |= self._bind_kind(t.value, k)
        return ch

    # ------------------------------------------------------------------
    def kind(self, e: Optional[ast.AST]) -> Optional[str]:
        if e is None or isinstance(e, ast.Constant):
            return None
        if isinstance(e, ast.Name):
            return self.vars.get(e.id)
        if isinstance(e, ast.Call):
            d = dotted(e.func) or ""
            short = d.split(".")[-1]
            if short in NUM_CALLS:
                return "NUM"
            if short in DICT_CALLS:
                return "DICT"
            if short in LIST_CALLS:
                return "LIST"
            if short in STREAM_CALLS:
                return "STREAM"
            if short in RAW_CALLS:
                return "RAW"
            if short == "get_filters":
                return "FPAIRS"  # list of (filter, parameters) pairs, both resolved but unchecked document values
            if short in TYPED_CALLS:
                return None
            if short == "cast" and len(e.args) == 2:
                return self.kind(e.args[1])
            if short in ("get", "pop", "setdefault") and isinstance(e.func, ast.Attribute) and not d.startswith("self.pop"):
                return "RAW" if self.kind(e.func.value) in ("DICT", "STREAM", "RAW") else None
            if short == "copy" and isinstance(e.func, ast.Attribute):
                return self.kind(e.func.value)
            if short in ("pop", "popall") and d.startswith("self.") and self.f.cls is not None and "Parser" in self.f.cls.name:
                return "PAIRS"
            if short == "pop" and d == "self.pop" and self.f.cls is not None and self.f.cls.name == "PDFPageInterpreter":
                return "LIST"
            if short in ("int", "float", "abs", "min", "max", "round"):
                return "NUM" if any(self.kind(a) for a in e.args) else None
            if short in ("tuple", "list", "sorted", "reversed") and e.args:
                k = self.kind(e.args[0])
                return "LIST" if k in ("LIST", "RAW") else None
            if short == "next" and e.args:
                ek = self.elem_kind(e.args[0])
                return ek if isinstance(ek, str) else None
            return None
        if isinstance(e, ast.Subscript):
            k = self.kind(e.value)
            if k in ("DICT", "STREAM", "RAW"):
                return "RAW"
            if k == "LIST":
                return "LIST" if isinstance(e.slice, ast.Slice) else "RAW"
            if k == "VEC":
                return "LIST" if isinstance(e.slice, ast.Slice) else "RAW"
            if k == "PAIRS":
                return "PAIRS" if isinstance(e.slice, ast.Slice) else None
            if k == "FPAIRS":
                return "FPAIRS" if isinstance(e.slice, ast.Slice) else "TUPLE2"
            if k == "TUPLE2":
                return "RAW"  # zip() made the pairs: [0] and [1] exist
            return None
        if isinstance(e, ast.Attribute):
            if isinstance(e.value, ast.Name) and e.value.id == "self":
                for cn in self._mro_names:
                    if (cn, e.attr) in CLASS_ATTR_KIND:
                        return CLASS_ATTR_KIND[(cn, e.attr)]
            if e.attr in ANY_RECEIVER_RAW:
                return "RAW"
            if isinstance(e.value, ast.Name) and e.value.id in ("self", "page", "image", "stream", "xobj", "obj", "document", "doc"):
                if e.attr in DICT_ATTRS:
                    return "DICT"
                if e.attr in RAW_ATTRS:
                    return "RAW"
                if e.attr in LIST_ATTRS:
                    return "LIST"
            return None
        if isinstance(e, ast.BinOp):
            ks = {self.kind(e.left), self.kind(e.right)}
            if "RAW" in ks:
                return "RAW"
            if "NUM" in ks:
                return "NUM"
            if "LIST" in ks:
                return "LIST"
            return None
        if isinstance(e, ast.UnaryOp):
            return self.kind(e.operand)
        if isinstance(e, ast.IfExp):
            ks = {self.kind(e.body), self.kind(e.orelse)} - {None}
            return ks.pop() if len(ks) == 1 else ("RAW" if ks else None)
        if isinstance(e, ast.BoolOp):
            ks = {self.kind(v) for v in e.values} - {None}
            return ks.pop() if len(ks) == 1 else ("RAW" if ks else None)
        if isinstance(e, (ast.List, ast.Tuple)):
            ks = {self.kind(x) for x in e.elts}
            return "LIST" if ks & {"RAW", "LIST", "DICT", "NUM"} else None
        if isinstance(e, ast.Starred):
            return self.kind(e.value)
        return None

"""E4/E10 - expression normalisation and polynomial normal forms.

Poly: canonical multivariate polynomial with Fraction coefficients
(dict: monomial -> coeff; monomial = sorted tuple of (var, power)).
Symbolic evaluation of straight-line arithmetic functions: tuples of Poly.
"""

from __future__ import annotations

import ast
from fractions import Fraction
from typing import Any, Callable, Dict, Iterable, List, Optional, Sequence, Tuple, Union


class NotPolynomial(Exception):
    pass


class Poly:
    __slots__ = ("t",)

    def __init__(self, terms: Optional[Dict[Tuple[Tuple[str, int], ...], Fraction]] = None) -> None:
        self.t = {k: v for k, v in (terms or {}).items() if v != 0}

    @staticmethod
    def const(c: Union[int, float, Fraction]) -> "Poly":
        return Poly({(): Fraction(c)})

    @staticmethod
    def var(name: str) -> "Poly":
        return Poly({((name, 1),): Fraction(1)})

    def __add__(self, o: "Poly") -> "Poly":
        r = dict(self.t)
        for k, v in o.t.items():
            r[k] = r.get(k, Fraction(0)) + v
        return Poly(r)

    def __neg__(self) -> "Poly":
        return Poly({k: -v for k, v in self.t.items()})

    def __sub__(self, o: "Poly") -> "Poly":
        return self + (-o)

    def __mul__(self, o: "Poly") -> "Poly":
        r: Dict[Tuple[Tuple[str, int], ...], Fraction] = {}
        for k1, v1 in self.t.items():
            for k2, v2 in o.t.items():
                d: Dict[str, int] = {}
                for (n, p) in k1 + k2:
                    d[n] = d.get(n, 0) + p
                k = tuple(sorted(d.items()))
                r[k] = r.get(k, Fraction(0)) + v1 * v2
        return Poly(r)

    def __eq__(self, o: object) -> bool:
        return isinstance(o, Poly) and self.t == o.t

    def __hash__(self) -> int:
        return hash(tuple(sorted(self.t.items())))

    def is_const(self) -> bool:
        return all(k == () for k in self.t)

    def const_value(self) -> Fraction:
        return self.t.get((), Fraction(0))

    def vars(self) -> set:
        return {n for k in self.t for (n, _) in k}

    def degree(self) -> int:
        return max((sum(p for _, p in k) for k in self.t), default=0)

    def subst(self, env: Dict[str, "Poly"]) -> "Poly":
        out = Poly()
        for k, v in self.t.items():
            term = Poly.const(v)
            for (n, p) in k:
                base = env.get(n, Poly.var(n))
                for _ in range(p):
                    term = term * base
            out = out + term
        return out

    def __repr__(self) -> str:
        if not self.t:
            return "0"
        parts = []
        for k, v in sorted(self.t.items()):
            mon = "*".join(n if p == 1 else f"{n}^{p}" for n, p in k)
            if not mon:
                parts.append(str(v))
            elif v == 1:
                parts.append(mon)
            elif v == -1:
                parts.append("-" + mon)
            else:
                parts.append(f"{v}*{mon}")
        return " + ".join(parts).replace("+ -", "- ")


Value = Any  # Poly | tuple of Value | other


class SymEval:
    """Symbolic evaluation of straight-line arithmetic (assignments, tuple unpacking, return).

    `calls` maps a resolved callee name to a python callable on Values (used to inline helper functions).
    Unknown sub-expressions become fresh uninterpreted variables keyed by their normalised source.
    """

    def __init__(self, calls: Optional[Dict[str, Callable[..., Value]]] = None, opaque_ok: bool = True) -> None:
        self.calls = calls or {}
        self.opaque_ok = opaque_ok

    def expr(self, e: ast.AST, env: Dict[str, Value]) -> Value:
        if isinstance(e, ast.Constant) and isinstance(e.value, (int, float)) and not isinstance(e.value, bool):
            return Poly.const(Fraction(str(e.value)) if isinstance(e.value, float) else e.value)
        if isinstance(e, ast.Name):
            if e.id in env:
                return env[e.id]
            return Poly.var(e.id)
        if isinstance(e, (ast.Tuple, ast.List)):
            out: List[Value] = []
            for x in e.elts:
                if isinstance(x, ast.Starred):
                    v = self.expr(x.value, env)
                    if not isinstance(v, tuple):
                        raise NotPolynomial("starred non-tuple")
                    out.extend(v)
                else:
                    out.append(self.expr(x, env))
            return tuple(out)
        if isinstance(e, ast.UnaryOp) and isinstance(e.op, (ast.USub, ast.UAdd)):
            v = self.expr(e.operand, env)
            if not isinstance(v, Poly):
                raise NotPolynomial("unary on non-scalar")
            return -v if isinstance(e.op, ast.USub) else v
        if isinstance(e, ast.BinOp):
            a = self.expr(e.left, env)
            b = self.expr(e.right, env)
            if isinstance(a, Poly) and isinstance(b, Poly):
                if isinstance(e.op, ast.Add):
                    return a + b
                if isinstance(e.op, ast.Sub):
                    return a - b
                if isinstance(e.op, ast.Mult):
                    return a * b
                if isinstance(e.op, ast.Div) and b.is_const() and b.const_value() != 0:
                    return a * Poly.const(1 / b.const_value())
            if isinstance(a, tuple) and isinstance(b, tuple) and isinstance(e.op, ast.Add):
                return a + b
            return self._opaque(e, env)
        if isinstance(e, ast.Subscript):
            v = self.expr(e.value, env)
            if isinstance(v, tuple):
                if isinstance(e.slice, ast.Constant) and isinstance(e.slice.value, int):
                    return v[e.slice.value]
                if isinstance(e.slice, ast.UnaryOp) and isinstance(e.slice.op, ast.USub) and isinstance(e.slice.operand, ast.Constant):
                    return v[-e.slice.operand.value]
                if isinstance(e.slice, ast.Slice):
                    def c(x: Optional[ast.AST]) -> Optional[int]:
                        if x is None:
                            return None
                        vv = self.expr(x, env)
                        if isinstance(vv, Poly) and vv.is_const():
                            return int(vv.const_value())
                        raise NotPolynomial("slice bound")
                    return v[slice(c(e.slice.lower), c(e.slice.upper), c(e.slice.step))]
            return self._opaque(e, env)
        if isinstance(e, ast.Call):
            name = _dotted(e.func)
            if name is not None:
                short = name.split(".")[-1]
                fn = self.calls.get(name) or self.calls.get(short)
                if fn is not None:
                    args = []
                    for a in e.args:
                        if isinstance(a, ast.Starred):
                            v = self.expr(a.value, env)
                            if not isinstance(v, tuple):
                                raise NotPolynomial("starred non-tuple")
                            args.extend(v)
                        else:
                            args.append(self.expr(a, env))
                    kwargs = {k.arg: self.expr(k.value, env) for k in e.keywords if k.arg}
                    return fn(*args, **kwargs)
                if short == "cast" and len(e.args) == 2:
                    return self.expr(e.args[1], env)
                if short in ("float", "int") and len(e.args) == 1:
                    return self.expr(e.args[0], env)
                if short in ("tuple", "list") and len(e.args) == 1:
                    return self.expr(e.args[0], env)
            return self._opaque(e, env)
        if isinstance(e, ast.Attribute):
            d = _dotted(e)
            if d is not None:
                if d in env:
                    return env[d]
                return Poly.var(d)
            return self._opaque(e, env)
        return self._opaque(e, env)

    def _opaque(self, e: ast.AST, env: Dict[str, Value]) -> Value:
        if not self.opaque_ok:
            raise NotPolynomial(ast.unparse(e))
        return Poly.var("⟨" + ast.unparse(e) + "⟩")

    def assign(self, target: ast.AST, value: Value, env: Dict[str, Value]) -> None:
        if isinstance(target, ast.Name):
            env[target.id] = value
        elif isinstance(target, (ast.Tuple, ast.List)):
            if not isinstance(value, tuple) or len(value) != len(target.elts):
                # unpacking an opaque value: name the components
                if isinstance(value, Poly) and len(value.t) == 1:
                    (mon, c), = value.t.items()
                    if c == 1 and len(mon) == 1 and mon[0][1] == 1:
                        base = mon[0][0]
                        for i, t in enumerate(target.elts):
                            self.assign(t, Poly.var(f"{base}[{i}]"), env)
                        return
                raise NotPolynomial(f"cannot unpack {value!r} into {ast.unparse(target)}")
            for t, v in zip(target.elts, value):
                self.assign(t, v, env)
        elif isinstance(target, ast.Attribute):
            d = _dotted(target)
            if d is None:
                raise NotPolynomial("attribute target")
            env[d] = value
        else:
            raise NotPolynomial(f"target {type(target).__name__}")

    def run_block(self, stmts: Sequence[ast.stmt], env: Dict[str, Value]) -> Optional[Value]:
        """Execute straight-line statements; returns the value of the first `return`."""
        for st in stmts:
            if isinstance(st, ast.Expr):
                continue  # docstring / call for effect
            if isinstance(st, ast.Assign):
                v = self.expr(st.value, env)
                for t in st.targets:
                    self.assign(t, v, env)
            elif isinstance(st, ast.AnnAssign):
                if st.value is not None:
                    self.assign(st.target, self.expr(st.value, env), env)
            elif isinstance(st, ast.AugAssign):
                cur = self.expr(st.target, env)
                v = self.expr(st.value, env)
                if isinstance(cur, Poly) and isinstance(v, Poly):
                    if isinstance(st.op, ast.Add):
                        self.assign(st.target, cur + v, env)
                    elif isinstance(st.op, ast.Sub):
                        self.assign(st.target, cur - v, env)
                    elif isinstance(st.op, ast.Mult):
                        self.assign(st.target, cur * v, env)
                    else:
                        raise NotPolynomial("augassign op")
                else:
                    raise NotPolynomial("augassign non-scalar")
            elif isinstance(st, ast.Return):
                return self.expr(st.value, env) if st.value is not None else None
            elif isinstance(st, (ast.Pass, ast.Assert)):
                continue
            else:
                raise NotPolynomial(f"statement {type(st).__name__}")
        return None

    def function(self, fn: ast.FunctionDef) -> Callable[..., Value]:
        """Turn a straight-line function into a callable on symbolic values."""
        params = [a.arg for a in fn.args.args]

        def call(*args: Value, **kwargs: Value) -> Value:
            env: Dict[str, Value] = {}
            for p, a in zip(params, args):
                env[p] = a
            env.update(kwargs)
            res = self.run_block(fn.body, env)
            if res is None:
                raise NotPolynomial(f"{fn.name} returns nothing")
            return res

        return call


def _dotted(e: ast.AST) -> Optional[str]:
    if isinstance(e, ast.Name):
        return e.id
    if isinstance(e, ast.Attribute):
        b = _dotted(e.value)
        return f"{b}.{e.attr}" if b else None
    return None


# ------------------------------------------------------------- comparisons

_FLIP = {ast.Lt: ast.Gt, ast.Gt: ast.Lt, ast.LtE: ast.GtE, ast.GtE: ast.LtE, ast.Eq: ast.Eq, ast.NotEq: ast.NotEq}
_OPNAME = {ast.Lt: "<", ast.LtE: "<=", ast.Gt: ">", ast.GtE: ">=", ast.Eq: "==", ast.NotEq: "!=", ast.Is: "is", ast.IsNot: "is not", ast.In: "in", ast.NotIn: "not in"}
_NEG = {"<": ">=", "<=": ">", ">": "<=", ">=": "<", "==": "!=", "!=": "==", "is": "is not", "is not": "is", "in": "not in", "not in": "in"}


def canon_compare(e: ast.AST, negate: bool = False) -> List[Tuple[str, str, str]]:
    """A comparison (possibly chained / under `not`) as a list of (left, op, right) with op in
    {<, <=, ==, !=, is, is not, in, not in}: `a > b` becomes (b, <, a).  Operands are unparsed source."""
    if isinstance(e, ast.UnaryOp) and isinstance(e.op, ast.Not):
        return canon_compare(e.operand, not negate)
    if not isinstance(e, ast.Compare):
        raise ValueError("not a comparison")
    out = []
    left = e.left
    for op, right in zip(e.ops, e.comparators):
        o = _OPNAME[type(op)]
        if negate:
            o = _NEG[o]
        l, r = ast.unparse(left), ast.unparse(right)
        if o == ">":
            l, o, r = r, "<", l
        elif o == ">=":
            l, o, r = r, "<=", l
        elif o in ("==", "!=") and r < l:
            l, r = r, l
        out.append((l, o, r))
        left = right
    return out


def rename_locals(node: ast.AST, mapping: Dict[str, str]) -> ast.AST:
    import copy

    n = copy.deepcopy(node)
    for x in ast.walk(n):
        if isinstance(x, ast.Name) and x.id in mapping:
            x.id = mapping[x.id]
    return n


def path_to(fn: ast.AST, target: ast.AST) -> Optional[List[Tuple[List[ast.stmt], int]]]:
    """Chain of (block, index) from the function body down to the statement `target`."""

    def rec(block: List[ast.stmt]) -> Optional[List[Tuple[List[ast.stmt], int]]]:
        for i, st in enumerate(block):
            if st is target:
                return [(block, i)]
            for name in ("body", "orelse", "finalbody"):
                sub = getattr(st, name, None)
                if isinstance(sub, list) and sub and isinstance(sub[0], ast.stmt):
                    r = rec(sub)
                    if r is not None:
                        return [(block, i)] + r
            for h in getattr(st, "handlers", []) or []:
                r = rec(h.body)
                if r is not None:
                    return [(block, i)] + r
        return None

    return rec(fn.body)  # type: ignore[attr-defined]


def env_before(fn: ast.AST, target: ast.AST, se: "SymEval", env: Optional[Dict[str, Value]] = None) -> Dict[str, Value]:
    """Symbolic environment just before `target`, executing the straight-line statements that
    precede it in each enclosing block (compound statements off the path are skipped; names they
    assign are forgotten)."""
    env = dict(env or {})
    chain = path_to(fn, target)
    if chain is None:
        raise NotPolynomial("target statement not in function")
    for (block, idx) in chain:
        for st in block[:idx]:
            if isinstance(st, (ast.Assign, ast.AnnAssign, ast.AugAssign)):
                try:
                    se.run_block([st], env)
                except NotPolynomial:
                    for t in ast.walk(st):
                        if isinstance(t, ast.Name) and isinstance(t.ctx, ast.Store):
                            env.pop(t.id, None)
            elif isinstance(st, (ast.If, ast.For, ast.While, ast.Try, ast.With)):
                for t in ast.walk(st):
                    if isinstance(t, ast.Name) and isinstance(t.ctx, ast.Store):
                        env.pop(t.id, None)
                    elif isinstance(t, ast.Attribute) and isinstance(t.ctx, ast.Store):
                        d = _dotted(t)
                        if d:
                            env.pop(d, None)
    return env
